package rules

import (
	"fmt"
	"go/constant"
	"go/token"
	"go/types"
	"sort"
	"strings"

	"golang.org/x/tools/go/ssa"

	"sheensverif/internal/flow"
	"sheensverif/internal/nilc"
	"sheensverif/internal/prog"
	"sheensverif/internal/ssau"
)

func init() { Registry["C18"] = C18 }

// rangeKV: if k and v are the key and value of one iteration of a range over m, returns the Range.
func rangeKV(k, v ssa.Value) (*ssa.Range, bool) {
	ek, ok1 := k.(*ssa.Extract)
	ev, ok2 := v.(*ssa.Extract)
	if !ok1 || !ok2 || ek.Tuple != ev.Tuple || ek.Index != 1 || ev.Index != 2 {
		return nil, false
	}
	nx, ok := ek.Tuple.(*ssa.Next)
	if !ok {
		return nil, false
	}
	rg, ok := nx.Iter.(*ssa.Range)
	return rg, ok
}

func C18(c *Ctx) {
	c.R.Explanation = "Decides structural necessary conditions of 'permanent bindings survive every action and guard' on the SSA form of FuncAction.Exec: (R1) before the wrapped function is called, every (name, value) pair of the given bindings whose name is permanent is saved into a map created by this activation (not shared between executions); after the call, on every path that returns bindings, exactly the saved pairs are written back into the returned bindings — names and values both come from the saved map, never from the (possibly mutated) given bindings; the only ways around the write-back are the feature switch, a nil execution and nil bindings; (R2) FuncAction is the only Action implementation in the repository and the only caller of interpreter Exec functions, so every action and guard goes through the wrapper; (R3) the write-back is nil-safe and leaves nil bindings nil (a rejecting guard still rejects); (R4) nothing reachable from the given bindings is reachable from a value handed to the ECMAScript runtime, so a script cannot alter a permanent binding's value in place (the snapshot holds the same value object). (R5) on every path of core Step on which the action's error is non-nil, the bindings that are extended with the error texts, stored into the error state and handed to branch evaluation derive only from a copy of the given state's bindings — never from the failed execution's bindings (which the wrapper does not restore into) or from fresh empty bindings. (R6) the bindings argument of the wrapped function is bs.Copy(): what a native action or guard deletes or overwrites at the top level before it fails or rejects never reaches the machine's bindings. Values for all scripts are not decided."
	c.R.Rule("C18-R1", "E3+E5", "snapshot before, restore after, from a private map", 6)
	c.R.Rule("C18-R2", "E7", "the wrapper is the sole executor", 3)
	c.R.Rule("C18-R3", "E2", "restore is nil-safe and does not force bindings", 2)
	c.R.Rule("C18-R4", "E1", "scripts cannot change a (permanent) binding's value in place: they see copies", 1)
	c.shareRule("C07", "C07-R11", "C18-R8", "the error state Walk builds after a failed step carries the bindings (permanent ones included) of the state that step started from")
	c.shareRule("C10", "C10-R6", "C18-R9", "a script cannot reach a machine's live bindings through the step properties")
	c.shareRule("C04", "C04-R8", "C18-R7", "an action's empty object is (empty) bindings, not the absence of bindings: the wrapper restores permanent bindings only into bindings")
	c.R.Rule("C18-R10", "E7", "the engine removes no binding", 1)
	c18EngineRemovesNothing(c, "C18-R10")
	c.R.Rule("C18-R6", "E5", "the wrapped function gets its own copy of the bindings, so a failing action or rejecting guard cannot have removed anything from the machine's", 1)
	c.R.Rule("C18-R5", "E3+E5", "a failed action leaves the machine's bindings in place: Step goes on from a copy of the given bindings", 2)
	c18Failure(c)
	exec := c.fn("core", "FuncAction", "Exec")
	if exec == nil {
		return
	}
	c.R.Fn(fname(exec))
	// isPermTest: cond is true exactly when name ends in '!': `strings.HasSuffix(name, "!")` or a comparison of the
	// last byte (`name[len(name)-1] == '!'`, `name[len(name)-1:] == "!"`), spelled out or through a helper that
	// returns exactly that (a helper may answer false for the empty name before it looks at the last byte)
	isLenOf := func(v ssa.Value, name ssa.Value) bool {
		cl, ok := v.(*ssa.Call)
		if !ok {
			return false
		}
		bi, isB := cl.Common().Value.(*ssa.Builtin)
		return isB && bi.Name() == "len" && len(cl.Common().Args) == 1 && cl.Common().Args[0] == name
	}
	isLastIdx := func(v ssa.Value, name ssa.Value) bool {
		bo, ok := v.(*ssa.BinOp)
		if !ok || bo.Op != token.SUB || !isLenOf(bo.X, name) {
			return false
		}
		k, isK := ssau.ConstInt(bo.Y)
		return isK && k == 1
	}
	suffixCall := func(v ssa.Value, name ssa.Value) bool {
		if bo, isB := v.(*ssa.BinOp); isB && bo.Op == token.EQL {
			x, y := bo.X, bo.Y
			if _, isC := x.(*ssa.Const); isC {
				x, y = y, x
			}
			switch e := x.(type) {
			case *ssa.Lookup: // name[len(name)-1] == '!'
				if k, isK := ssau.ConstInt(y); isK && k == '!' && e.X == name && !e.CommaOk && isLastIdx(e.Index, name) {
					return true
				}
			case *ssa.Index: // (a string is indexed by Index or Lookup, depending on the x/tools version)
				if k, isK := ssau.ConstInt(y); isK && k == '!' && e.X == name && isLastIdx(e.Index, name) {
					return true
				}
			case *ssa.Slice: // name[len(name)-1:] == "!"
				if s, isS := ssau.ConstString(y); isS && s == "!" && e.X == name && e.High == nil && e.Max == nil && e.Low != nil && isLastIdx(e.Low, name) {
					return true
				}
			}
			return false
		}
		cl, ok := v.(*ssa.Call)
		if !ok || ssau.CalleeName(cl) != "strings.HasSuffix" || cl.Common().Args[0] != name {
			return false
		}
		s, isS := ssau.ConstString(cl.Common().Args[1])
		return isS && s == "!"
	}
	// emptyName: the fact says that name is the empty string
	emptyName := func(f flow.Fact, name ssa.Value) bool {
		bo, ok := f.Cond.(*ssa.BinOp)
		if !ok {
			return false
		}
		x, y := bo.X, bo.Y
		op := bo.Op
		if _, isC := x.(*ssa.Const); isC {
			x, y = y, x
			switch op {
			case token.LSS:
				op = token.GTR
			case token.GTR:
				op = token.LSS
			case token.LEQ:
				op = token.GEQ
			case token.GEQ:
				op = token.LEQ
			}
		}
		if x == name {
			if s, isS := ssau.ConstString(y); isS && s == "" {
				return (op == token.EQL && f.True) || (op == token.NEQ && !f.True)
			}
			return false
		}
		if !isLenOf(x, name) {
			return false
		}
		k, isK := ssau.ConstInt(y)
		if !isK {
			return false
		}
		switch {
		case k == 0 && ((op == token.EQL && f.True) || (op == token.NEQ && !f.True) || (op == token.LEQ && f.True) || (op == token.GTR && !f.True)):
			return true
		case k == 1 && ((op == token.LSS && f.True) || (op == token.GEQ && !f.True)):
			return true
		}
		return false
	}
	isPermTest := func(cond ssa.Value, name ssa.Value) bool {
		if suffixCall(cond, name) {
			return true
		}
		cl, ok := cond.(*ssa.Call)
		if !ok {
			return false
		}
		h := cl.Common().StaticCallee()
		if h == nil || h.Blocks == nil || prog.PkgOf(h) != "core" || h.Signature.Results().Len() != 1 {
			return false
		}
		idx := -1
		for i, a := range cl.Common().Args {
			if a == name {
				idx = i
			}
		}
		if idx < 0 || idx >= len(h.Params) {
			return false
		}
		n := 0
		for _, b := range h.Blocks {
			if ret, isRet := b.Instrs[len(b.Instrs)-1].(*ssa.Return); isRet {
				// the answers that are merged into the result, each with what holds on its way to the return (the
				// facts of the incoming edge: `0 < n && p[n-1] == '!'` answers false on the edge where 0 < n failed)
				type answerAt struct {
					v     ssa.Value
					facts []flow.Fact
				}
				var answers func(v ssa.Value, facts []flow.Fact, depth int) []answerAt
				answers = func(v ssa.Value, facts []flow.Fact, depth int) []answerAt {
					if p, isPhi := v.(*ssa.Phi); isPhi && depth < 6 {
						var out []answerAt
						for i, e := range p.Edges {
							out = append(out, answers(e, flow.EdgeFacts(p.Block().Preds[i], p.Block()), depth+1)...)
						}
						return out
					}
					return []answerAt{{v, facts}}
				}
				for _, d := range answers(ret.Results[0], flow.FactsAt(b), 0) {
					n++
					if suffixCall(d.v, h.Params[idx]) {
						continue
					}
					// a constant answer where the facts decide the test: false for the empty name or under the failed
					// test, true under the test
					cst, isC := d.v.(*ssa.Const)
					if !isC || cst.Value == nil || cst.Value.Kind() != constant.Bool {
						return false
					}
					want := constant.BoolVal(cst.Value)
					decided := false
					for _, f := range d.facts {
						if !want && emptyName(f, h.Params[idx]) {
							decided = true
						}
						if suffixCall(f.Cond, h.Params[idx]) && f.True == want {
							decided = true
						}
					}
					if !decided {
						return false
					}
				}
			}
		}
		if n > 0 {
			c.R.Fn(fname(h))
		}
		return n > 0
	}
	closure := pkgClosure(exec)
	// dd: the leaf definitions of a value through the helpers Exec is split into and through private local cells
	// (locals kept as the fields of one local struct)
	dd := func(v ssa.Value, scope []*ssa.Function) []ssa.Value { return deepDefsCells(v, scope) }
	// the wrapped call: in Exec, or in the helper of Exec that runs the wrapped function
	var K *ssa.Call
	for _, g := range closure {
		if K != nil {
			break
		}
		ssau.Instrs(g, func(in ssa.Instruction) {
			if cl, ok := in.(*ssa.Call); ok && cl.Common().StaticCallee() == nil && !cl.Common().IsInvoke() {
				if _, is := isFieldLoad(cl.Common().Value, "core", "FuncAction", "F"); is {
					K = cl
				}
			}
		})
	}
	if K == nil {
		c.R.Break("C18: FuncAction.Exec does not call its wrapped function F")
		return
	}
	var bsParam *ssa.Parameter
	for _, p := range exec.Params {
		if ssau.TypeIs(p.Type(), prog.Abs("match"), "Bindings") {
			bsParam = p
		}
	}
	if bsParam == nil {
		c.R.Break("C18: FuncAction.Exec has no Bindings parameter")
		return
	}
	// isGiven: every definition of v, through the helpers Exec is split into, is Exec's bindings parameter
	isGiven := func(v ssa.Value) bool {
		ds := dd(v, closure)
		for _, d := range ds {
			if d != ssa.Value(bsParam) {
				return false
			}
		}
		return len(ds) > 0
	}
	givenOK := false
	if len(K.Common().Args) >= 2 {
		ds := dd(K.Common().Args[1], closure)
		givenOK = len(ds) > 0
		for _, d := range ds {
			if d == ssa.Value(bsParam) {
				continue
			}
			if cl, isC := d.(*ssa.Call); isC && cl.Common().StaticCallee() != nil && cl.Common().StaticCallee().Name() == "Copy" && len(cl.Common().Args) == 1 && isGiven(cl.Common().Args[0]) {
				continue // a copy of them (R6)
			}
			givenOK = false
		}
	}
	c.R.Check(givenOK, "C18-R1", "Exec: wrapped function gets the given bindings", c.pos(K), "F(ctx, bs or bs.Copy(), props)", "the wrapped function is not given the bindings")
	isFlag := func(v ssa.Value) bool {
		if u, ok := v.(*ssa.UnOp); ok {
			if g, ok := u.X.(*ssa.Global); ok && g.Name() == "Exp_PermanentBindings" {
				return true
			}
		}
		return false
	}
	exeVal := callResults(K)[0]
	// tracesTo: every leaf definition of v (through helpers) is one of targets
	tracesTo := func(v ssa.Value, targets ...ssa.Value) bool {
		leaves := dd(v, closure)
		if len(leaves) == 0 {
			return false
		}
		for _, l := range leaves {
			ok := false
			for _, t := range targets {
				if l == t {
					ok = true
				}
			}
			if !ok {
				return false
			}
		}
		return true
	}
	// exeOrFresh: v is the wrapped call's execution, or on some paths an execution made on the spot in its place
	// (`if exe == nil { exe = NewExecution(nil) }`)
	exeOrFresh := func(v ssa.Value, exeVal ssa.Value) bool {
		leaves := dd(v, closure)
		hit := false
		for _, l := range leaves {
			if l == exeVal {
				hit = true
				continue
			}
			if cl, isC := l.(*ssa.Call); isC && cl.Common().StaticCallee() != nil && cl.Common().StaticCallee().Name() == "NewExecution" {
				continue
			}
			if al, isA := l.(*ssa.Alloc); isA && ssau.TypeIs(al.Type().Underlying().(*types.Pointer).Elem(), prog.Abs("core"), "Execution") {
				continue
			}
			return false
		}
		return hit
	}
	// chainOf: the instructions through which `in` is executed, innermost first: `in` itself, the only call of its
	// function among the helpers of Exec, the only call of that call's function, ... up to an instruction of Exec
	chainOf := func(in ssa.Instruction) []ssa.Instruction {
		out := []ssa.Instruction{in}
		for in.Parent() != exec {
			sites := callSitesOf(in.Parent(), closure)
			if len(sites) != 1 || len(out) > 5 {
				return nil
			}
			in = sites[0]
			out = append(out, in)
		}
		return out
	}
	// meet: the innermost function that executes both a and b, with the instructions of it that do (a or b
	// themselves, or the calls leading to them)
	meet := func(a, b ssa.Instruction) (*ssa.Function, ssa.Instruction, ssa.Instruction) {
		ca, cb := chainOf(a), chainOf(b)
		for _, x := range ca {
			for _, y := range cb {
				if x.Parent() == y.Parent() {
					return x.Parent(), x, y
				}
			}
		}
		return nil, nil, nil
	}
	// ---- snapshot
	var snap *ssa.MapUpdate
	var M ssa.Value
	for _, g := range closure {
		ssau.Instrs(g, func(in ssa.Instruction) {
			mu, ok := in.(*ssa.MapUpdate)
			if !ok {
				return
			}
			rg, ok := rangeKV(mu.Key, mu.Value)
			if !ok || !isBindingsT(rg.X.Type()) || !tracesTo(rg.X, bsParam) {
				return
			}
			if base, is := isFieldLoad(mu.Map, "core", "Execution", "Bs"); is && base != nil {
				return // that is a restore-like write, not the snapshot
			}
			snap, M = mu, mu.Map
			// the map may be kept in a private local cell: then it is what that cell holds at the snapshot
			if ds := dd(mu.Map, closure); len(ds) == 1 {
				M = ds[0]
			}
		})
	}
	if snap == nil {
		c.R.Violate("C18-R1", "Exec: snapshot of permanent bindings", c.P.Pos(exec.Pos()), "no loop saves the (name, value) pairs of the given bindings before the call")
		return
	}
	S := snap.Parent()
	c.R.Fn(fname(S))
	_, private := M.(*ssa.MakeMap)
	c.R.Check(private, "C18-R1", "Exec: snapshot map is private to the activation", c.pos(snap), "map created by make in this call", "the snapshot is kept in storage that outlives or is shared between executions ("+M.String()+")")
	underPerm := false
	for _, f := range flow.FactsAt(snap.Block()) {
		if f.True && isPermTest(f.Cond, snap.Key) {
			underPerm = true
		}
	}
	c.R.Check(underPerm, "C18-R1", "Exec: snapshot selects permanent names", c.pos(snap), "under strings.HasSuffix(name, \"!\") (directly or through a helper that returns exactly that)", "the snapshot is not taken for exactly the names ending in '!'")
	// the snapshot loop sees every entry, and is executed before the wrapped call
	SL := flow.InnermostLoop(flow.Loops(S), snap.Block())
	okBefore := SL != nil
	whyBefore := "the snapshot is not taken in a loop over the given bindings"
	if SL != nil {
		for _, ex := range SL.Exits() {
			if ex[0] != SL.Header {
				okBefore, whyBefore = false, "the snapshot loop can stop before it has seen every binding"
			}
		}
		// around: the blocks of fn reachable from its entry without entering `avoid`, the feature being switched
		// on (at a test of the feature switch only the true edge is followed: the false edge may bypass)
		around := func(fn *ssa.Function, avoid *ssa.BasicBlock) map[*ssa.BasicBlock]bool {
			seen := map[*ssa.BasicBlock]bool{}
			stack := []*ssa.BasicBlock{fn.Blocks[0]}
			for len(stack) > 0 {
				b := stack[len(stack)-1]
				stack = stack[:len(stack)-1]
				if seen[b] || b == avoid {
					continue
				}
				seen[b] = true
				if iff, isIf := b.Instrs[len(b.Instrs)-1].(*ssa.If); isIf && isFlag(iff.Cond) {
					stack = append(stack, b.Succs[0])
					continue
				}
				stack = append(stack, b.Succs...)
			}
			return seen
		}
		// the function that executes both the snapshot and the wrapped call (Exec, or the helper that does the work)
		A, aSnap, aK := meet(snap, K)
		var target *ssa.BasicBlock
		if A == nil {
			okBefore, whyBefore = false, "cannot relate the snapshot to the wrapper's body"
		} else if S == A {
			target = SL.Header
		} else {
			target = aSnap.Block()
			// inside the helper: the loop is reached on every path to a return that hands the map back (the way
			// on which the map is returned is what counts: `return nil` with the feature switched off is no such way)
			free := around(S, SL.Header)
			for _, b := range S.Blocks {
				if ret, isRet := b.Instrs[len(b.Instrs)-1].(*ssa.Return); isRet && free[b] {
					okBefore, whyBefore = false, "the helper that takes the snapshot can return without having run the snapshot loop"
					for _, r := range ret.Results {
						for _, d := range phiEdgesWithBlocks(r, b) {
							if d.v == M && free[d.b] {
								whyBefore = "the helper can return the map without having filled it"
							}
						}
					}
				}
			}
			// the helpers in between call it on every way through them
			for _, x := range chainOf(snap)[1:] {
				if x == aSnap {
					break
				}
				free := around(x.Parent(), x.Block())
				for _, b := range x.Parent().Blocks {
					if _, isRet := b.Instrs[len(b.Instrs)-1].(*ssa.Return); isRet && free[b] {
						okBefore, whyBefore = false, "a helper on the way to the snapshot can return without having taken it"
					}
				}
			}
		}
		if target != nil {
			// paths around the snapshot are allowed only through the feature switch
			if free := around(A, target); free[aK.Block()] && target != aK.Block() {
				okBefore, whyBefore = false, "the wrapped function can run before (or without) the snapshot"
			}
			if target == aK.Block() {
				// same block: the snapshot call must precede K
				if flow.Index(aSnap) > flow.Index(aK) {
					okBefore, whyBefore = false, "the wrapped function runs before the snapshot"
				}
			}
			if flow.Reachable(aK.Block(), target, nil) && target != aK.Block() {
				okBefore, whyBefore = false, "the snapshot can be taken after the wrapped function ran"
			}
		}
	}
	c.R.Check(okBefore, "C18-R1", "Exec: snapshot completes before the wrapped call", c.pos(K), "every path to the call runs the whole snapshot loop (or the feature is switched off)", whyBefore)

	// ---- restore
	var restore *ssa.MapUpdate
	var restoreCopy *ssa.Store // exe.Bs = <restored copy>, when the restore goes into a copy
	for _, g := range closure {
		ssau.Instrs(g, func(in ssa.Instruction) {
			mu, ok := in.(*ssa.MapUpdate)
			if !ok || mu == snap || !isBindingsT(mu.Map.Type()) {
				return
			}
			// the map written is the Bs of the wrapped call's execution, or a copy of it that is then made its Bs
			isExeBs := false
			for _, d := range dd(mu.Map, closure) {
				if base, is := isFieldLoad(d, "core", "Execution", "Bs"); is && exeOrFresh(base, exeVal) {
					isExeBs = true
					continue
				}
				if cl, isC := d.(*ssa.Call); isC && cl.Common().StaticCallee() != nil && cl.Common().StaticCallee().Name() == "Copy" && len(cl.Common().Args) == 1 {
					fromBs := false
					for _, d2 := range dd(cl.Common().Args[0], closure) {
						if base, is := isFieldLoad(d2, "core", "Execution", "Bs"); is && exeOrFresh(base, exeVal) {
							fromBs = true
						}
					}
					installed := false
					for _, g2 := range closure {
						for _, st := range storesTo(g2, "Execution", "Bs") {
							_, _, sb, _ := ssau.FieldOf(st.Addr)
							if exeOrFresh(sb, exeVal) {
								for _, d3 := range dd(st.Val, closure) {
									if d3 == d {
										installed = true
										restoreCopy = st
									}
								}
							}
						}
					}
					if fromBs && installed {
						isExeBs = true
						continue
					}
				}
				isExeBs = false
				break
			}
			if isExeBs {
				restore = mu
			}
		})
	}
	if restore == nil {
		c.R.Violate("C18-R1", "Exec: restore into the returned bindings", c.pos(K), "nothing writes into the bindings returned by the wrapped function")
		return
	}
	R := restore.Parent()
	c.R.Fn(fname(R))
	rg, okKV := rangeKV(restore.Key, restore.Value)
	fromSnap := false
	if okKV {
		leaves := dd(rg.X, closure)
		fromSnap = len(leaves) > 0
		for _, d := range leaves {
			if d != M && !ssau.IsNilConst(d) {
				fromSnap = false
			}
		}
	}
	c.R.Check(okKV && fromSnap, "C18-R1", "Exec: restored names and values come from the snapshot", c.pos(restore), "exe.Bs[p] = v for (p, v) ranging over the saved map", "the value (or name) written back is not the one saved before the call (e.g. it is read again from the given bindings, which the action may have changed)")
	RL := flow.InnermostLoop(flow.Loops(R), restore.Block())
	okAfter := RL != nil
	if RL != nil {
		for _, ex := range RL.Exits() {
			if ex[0] != RL.Header {
				okAfter = false
			}
		}
		// skipOfCond: the branch on cond has an edge that is an allowed way around the write-back; which one
		var skipOfCond func(cond ssa.Value, depth int) (int, bool)
		skipOfCond = func(cond ssa.Value, depth int) (int, bool) {
			if u, isU := cond.(*ssa.UnOp); isU && u.Op == token.NOT && depth < 4 {
				if i, has := skipOfCond(u.X, depth+1); has {
					return 1 - i, true
				}
				return 0, false
			}
			if isFlag(cond) {
				return 1, true
			}
			// nothing was saved: `0 < len(saved)` false / `len(saved) == 0` true
			if bo, ok := cond.(*ssa.BinOp); ok {
				isLenM := func(v ssa.Value) bool {
					cl, ok := v.(*ssa.Call)
					if !ok {
						return false
					}
					bi, isB := cl.Common().Value.(*ssa.Builtin)
					if !isB || bi.Name() != "len" {
						return false
					}
					for _, d := range dd(cl.Common().Args[0], closure) {
						if d != M && !ssau.IsNilConst(d) {
							return false
						}
					}
					return true
				}
				// a comparison of len(saved) with a constant, one edge of which is taken exactly when the length is 0
				// (`0 < len`, `len != 0`, `len >= 1` false; `len == 0`, `len <= 0`, `len < 1` true)
				cmp := func(op token.Token, x, y int64) bool {
					switch op {
					case token.LSS:
						return x < y
					case token.LEQ:
						return x <= y
					case token.GTR:
						return x > y
					case token.GEQ:
						return x >= y
					case token.EQL:
						return x == y
					}
					return x != y
				}
				var holds func(n int64) bool
				switch bo.Op {
				case token.LSS, token.LEQ, token.GTR, token.GEQ, token.EQL, token.NEQ:
					if k, isK := ssau.ConstInt(bo.Y); isK && isLenM(bo.X) {
						holds = func(n int64) bool { return cmp(bo.Op, n, int64(k)) }
					} else if k, isK := ssau.ConstInt(bo.X); isK && isLenM(bo.Y) {
						holds = func(n int64) bool { return cmp(bo.Op, int64(k), n) }
					}
				}
				if holds != nil {
					// lengths 1..3 stand for "not empty": with a constant outside -1..2 neither edge means "empty"
					switch {
					case holds(0) && !holds(1) && !holds(2) && !holds(3):
						return 0, true // the true edge is "nothing was saved"
					case !holds(0) && holds(1) && holds(2) && holds(3):
						return 1, true // the false edge skips
					}
				}
			}
			if bo, ok := cond.(*ssa.BinOp); ok && ssau.IsNilConst(bo.Y) {
				isExe := tracesTo(bo.X, exeVal)
				if !isExe {
					for _, d := range dd(bo.X, closure) {
						if base, is := isFieldLoad(d, "core", "Execution", "Bs"); is && tracesTo(base, exeVal) {
							isExe = true
						} else {
							isExe = false
							break
						}
					}
				}
				if isExe {
					if bo.Op == token.NEQ {
						return 1, true
					}
					return 0, true
				}
			}
			return 0, false
		}
		// bypass search: from `start` in fn, avoiding `target`, not following allowed skip edges; reaching a return is a bypass
		// A condition that was computed into a bool first (`skip := !flag || exe == nil || ...; if !skip {`) is a phi
		// of the block that tests it: the search keeps the edge it came along, and the operand of that edge decides —
		// a constant takes one way only, anything else is judged like a branch on it.
		allowedSkip := func(pred, b *ssa.BasicBlock) (int, bool) {
			iff, ok := b.Instrs[len(b.Instrs)-1].(*ssa.If)
			if !ok {
				return 0, false
			}
			cond, flip := iff.Cond, false
			for {
				u, isU := cond.(*ssa.UnOp)
				if !isU || u.Op != token.NOT {
					break
				}
				cond, flip = u.X, !flip
			}
			if phi, isPhi := cond.(*ssa.Phi); isPhi && phi.Block() == b && pred != nil {
				for i, p := range b.Preds {
					if p != pred || i >= len(phi.Edges) {
						continue
					}
					ev := phi.Edges[i]
					if cst, isC := ev.(*ssa.Const); isC && cst.Value != nil && cst.Value.Kind() == constant.Bool {
						// decided: the other edge cannot be taken (it is "skipped" for the search)
						if constant.BoolVal(cst.Value) != flip {
							return 1, true
						}
						return 0, true
					}
					if k, has := skipOfCond(ev, 0); has {
						if flip {
							k = 1 - k
						}
						return k, true
					}
					return 0, false
				}
			}
			return skipOfCond(iff.Cond, 0)
		}
		type bstate struct{ pred, b *ssa.BasicBlock }
		bypass := func(fn *ssa.Function, start, target *ssa.BasicBlock) bool {
			seen := map[bstate]bool{}
			stack := []bstate{{nil, start}}
			for len(stack) > 0 {
				st := stack[len(stack)-1]
				stack = stack[:len(stack)-1]
				b := st.b
				if seen[st] || b == target {
					continue
				}
				seen[st] = true
				if len(b.Succs) == 0 {
					if _, isRet := b.Instrs[len(b.Instrs)-1].(*ssa.Return); isRet {
						return true
					}
					continue
				}
				skip, has := allowedSkip(st.pred, b)
				for i, s := range b.Succs {
					if has && i == skip {
						continue
					}
					stack = append(stack, bstate{b, s})
				}
			}
			return false
		}
		// the function that executes both the wrapped call and the restore (Exec, or the helper that does the work)
		A, aRes, aK := meet(restore, K)
		switch {
		case A == nil:
			okAfter = false
		case R == A:
			if bypass(A, aK.Block(), RL.Header) {
				okAfter = false
			}
		default:
			if aRes.Block() != aK.Block() && bypass(A, aK.Block(), aRes.Block()) {
				okAfter = false
			}
			if aRes.Block() == aK.Block() && flow.Index(aRes) < flow.Index(aK) {
				okAfter = false
			}
			// inside the helper(s): no way around the loop, nor around the call that leads to it
			for i, x := range chainOf(restore) {
				if x == aRes {
					break
				}
				target := x.Block()
				if i == 0 {
					target = RL.Header
				}
				if bypass(x.Parent(), x.Parent().Blocks[0], target) {
					okAfter = false
				}
			}
		}
	}
	c.R.Check(okAfter, "C18-R1", "Exec: restore on every path that returns bindings", c.pos(restore), "the only ways around the write-back are the feature switch, a nil execution, nil bindings and an empty snapshot", "a path from the wrapped call to a return bypasses the write-back of permanent bindings")

	// ---- R6 the wrapped function works on a copy of the given bindings
	{
		okCopy, whyCopy := false, "the wrapped function is not given bindings"
		for _, arg := range K.Common().Args {
			if !isBindingsT(arg.Type()) {
				continue
			}
			okCopy = true
			for _, d := range dd(arg, closure) {
				cl, isC := d.(*ssa.Call)
				if !isC || cl.Common().StaticCallee() == nil || cl.Common().StaticCallee().Name() != "Copy" || len(cl.Common().Args) != 1 || !tracesTo(cl.Common().Args[0], bsParam) {
					okCopy, whyCopy = false, "the wrapped function receives "+d.String()+": a native action or guard that deletes from (or overwrites in) the map it is given and then fails or rejects has already changed the machine's bindings, permanent ones included"
				}
			}
		}
		c.R.Check(okCopy, "C18-R6", "Exec: the wrapped function gets a copy of the given bindings", c.pos(K), "F(ctx, bs.Copy(), props)", whyCopy)
	}
	// ---- R4 scripts see copies (a value shared with the script could be altered in place, and the altered value would be "restored")
	if ea, _ := c.ecmaAnalysis(); ea != nil {
		if c.scriptIsolation("C18-R4", ea, true) == 0 {
			c.R.Break("C18-R4: no value handed to the script runtime found")
		}
	}
	// frameOnlyFromExec: the wrapped call sits in an unexported helper that runs only as a part of Exec: every
	// call of it (and of the helpers between it and Exec) is the one call on the chain from Exec, and none of them
	// is used as a function value
	frameOnlyFromExec := func() bool {
		chain := chainOf(K)
		if chain == nil {
			return false
		}
		for i, x := range chain[:len(chain)-1] {
			h := x.Parent()
			if h.Object() == nil || h.Object().Exported() {
				return false
			}
			ok := true
			for _, f := range c.P.AllFuncs {
				ssau.Instrs(f, func(in ssa.Instruction) {
					if ci, isC := in.(ssa.CallInstruction); isC && ci.Common().StaticCallee() == h && in != chain[i+1] {
						ok = false
					}
					for _, op := range in.Operands(nil) {
						if *op == ssa.Value(h) {
							if ci, isC := in.(ssa.CallInstruction); !isC || ci.Common().Value != ssa.Value(h) {
								ok = false
							}
						}
						// a method value or method expression of it (bound-method wrapper, thunk)
						if w, isF := (*op).(*ssa.Function); isF && w != h && w.Synthetic != "" && w.Object() == h.Object() {
							ok = false
						}
					}
				})
			}
			if !ok {
				return false
			}
		}
		return true
	}
	// ---- R2 sole executor
	actionT := c.P.NamedType("core", "Action")
	interpT := c.P.NamedType("core", "Interpreter")
	if actionT == nil || interpT == nil {
		c.R.Break("C18-R2: core.Action / core.Interpreter not found")
		return
	}
	ai := actionT.Underlying().(*types.Interface)
	var impls []string
	for _, pk := range c.P.Pkgs {
		if pk.Types == nil || !strings.HasPrefix(pk.PkgPath, prog.ModPath) {
			continue
		}
		sc := pk.Types.Scope()
		for _, n := range sc.Names() {
			tn, ok := sc.Lookup(n).(*types.TypeName)
			if !ok || tn.IsAlias() {
				continue
			}
			if _, isIface := tn.Type().Underlying().(*types.Interface); isIface {
				continue
			}
			if types.Implements(tn.Type(), ai) || types.Implements(types.NewPointer(tn.Type()), ai) {
				impls = append(impls, prog.Rel(pk.PkgPath)+"."+n)
			}
		}
	}
	sort.Strings(impls)
	c.R.Check(len(impls) == 1 && impls[0] == "core.FuncAction", "C18-R2", "FuncAction is the only Action implementation", c.P.Pos(exec.Pos()), "implementations: "+strings.Join(impls, ", "), "another Action implementation bypasses the permanent-bindings wrapper: "+strings.Join(impls, ", "))
	// callers of Interpreter.Exec (invoke) and of FuncAction.F
	nInv := 0
	for _, f := range c.P.AllFuncs {
		ssau.Instrs(f, func(in ssa.Instruction) {
			ci, ok := in.(ssa.CallInstruction)
			if !ok {
				return
			}
			cm := ci.Common()
			if cm.IsInvoke() && cm.Method.Name() == "Exec" && ssau.TypeIs(cm.Value.Type(), prog.Abs("core"), "Interpreter") {
				nInv++
				// must be inside a function literal whose value is stored into FuncAction.F
				// f must be what a FuncAction's F holds: a function literal, or a
				// method whose bound method value is stored there
				okWrap := false
				for _, g := range c.P.FuncsIn("core") {
					ssau.Instrs(g, func(in2 ssa.Instruction) {
						st, ok := in2.(*ssa.Store)
						if !ok || !ssau.IsField(st.Addr, prog.Abs("core"), "FuncAction", "F") {
							return
						}
						mc, ok := st.Val.(*ssa.MakeClosure)
						if !ok {
							return
						}
						w := mc.Fn.(*ssa.Function)
						if w == f {
							okWrap = true
							return
						}
						// bound-method wrapper (or a thin literal) that only forwards to f
						ssau.Instrs(w, func(in3 ssa.Instruction) {
							if ci, ok := in3.(ssa.CallInstruction); ok && ci.Common().StaticCallee() == f {
								okWrap = true
							}
						})
					})
				}
				c.R.Check(okWrap, "C18-R2", fmt.Sprintf("%s: interpreter executed only as FuncAction.F #%d", fname(f), nInv), c.pos(in), "the call is the body of a FuncAction's F", "an interpreter is executed outside the FuncAction wrapper")
			}
			if !cm.IsInvoke() && cm.StaticCallee() == nil {
				if _, is := isFieldLoad(cm.Value, "core", "FuncAction", "F"); is {
					c.R.Check(f == exec || (in == ssa.Instruction(K) && frameOnlyFromExec()), "C18-R2", "FuncAction.F called in "+fname(f), c.pos(in), "only FuncAction.Exec calls F", "the wrapped function is called directly, bypassing the wrapper")
				}
			}
		})
	}
	if nInv == 0 {
		c.R.Break("C18-R2: no invoke of core.Interpreter.Exec found")
	}

	// ---- R3 nil safety of the restore (subset of C07-R1 on the wrapper)
	var srcs []nilc.Source
	if ex := callResults(K)[0]; ex != nil {
		srcs = append(srcs, nilc.Source{V: ex, Why: "the wrapped function may return no Execution", Label: "Execution from F"})
	}
	for i, v := range nilc.FieldLoads([]*ssa.Function{exec}, prog.Abs("core"), "Execution", "Bs") {
		srcs = append(srcs, nilc.Source{V: v, Why: "the wrapped function may return null bindings", WritesOnly: true, Label: fmt.Sprintf("Execution.Bs load#%d", i+1)})
	}
	res := nilc.Check(nilc.Config{Prog: c.P, Engine: map[string]bool{"core": true}, PairRule: false}, srcs)
	c.reportNil("C18-R3", res)
	// restore must not create bindings: no store to Execution.Bs of the callback's execution in Exec
	forced := false
	var bsStores []*ssa.Store
	for _, g := range closure {
		bsStores = append(bsStores, storesTo(g, "Execution", "Bs")...) // in Exec or in the helpers it is split into
	}
	for _, st := range bsStores {
		if st == restoreCopy {
			// the restored copy of non-nil bindings becomes the result's bindings: non-nil stays non-nil
			nonNil := false
			facts := append([]flow.Fact{}, flow.FactsAt(st.Block())...)
			// the store may sit in a helper that is called at one place only: what holds at that call holds here
			for g, k := st.Parent(), 0; g != exec && k < 5; k++ {
				sites := callSitesOf(g, closure)
				if len(sites) != 1 {
					break
				}
				facts = append(facts, flow.FactsAt(sites[0].Block())...)
				g = sites[0].Parent()
			}
			for _, f := range facts {
				if bo, ok := f.Cond.(*ssa.BinOp); ok && ssau.IsNilConst(bo.Y) && ((bo.Op == token.NEQ && f.True) || (bo.Op == token.EQL && !f.True)) {
					if _, is := isFieldLoad(bo.X, "core", "Execution", "Bs"); is {
						nonNil = true
					}
				}
			}
			if nonNil {
				continue
			}
		}
		if fa, ok := st.Addr.(*ssa.FieldAddr); ok {
			for _, d := range dd(fa.X, closure) {
				if ex, isEx := d.(*ssa.Extract); isEx && ex.Tuple == ssa.Value(K) {
					forced = true
				}
			}
		}
	}
	c.R.Check(!forced, "C18-R3", "Exec: nil bindings stay nil", c.pos(K), "the wrapper assigns Execution.Bs of the result only to install the restored copy of non-nil bindings", "the wrapper replaces the returned bindings (a guard that rejects by returning nil would accept)")
}

// c18Failure: C18-R5.
func c18Failure(c *Ctx) {
	step := c.fn("core", "Spec", "Step")
	if step == nil {
		return
	}
	c.R.Fn(fname(step))
	scope := []*ssa.Function{step}
	for _, f := range pkgClosure(step) {
		if f != step && prog.PkgOf(f) == "core" {
			scope = append(scope, f) // helpers Step is split into; Bindings.Copy (package match) stays a leaf
		}
	}
	// (branch evaluation is not part of "Step and the helpers it runs the action in")
	var stepFns []*ssa.Function
	{
		skip := map[*ssa.Function]bool{}
		if cons := c.P.Func("core", "Branches", "consider"); cons != nil {
			for _, f := range pkgClosure(cons) {
				skip[f] = true
			}
		}
		for _, f := range scope {
			if !skip[f] {
				stepFns = append(stepFns, f)
			}
		}
	}
	var actErr ssa.Value
	for _, f := range stepFns {
		ssau.Instrs(f, func(in ssa.Instruction) {
			if ex, ok := in.(*ssa.Extract); ok && ex.Index == 1 {
				if cl, ok := ex.Tuple.(*ssa.Call); ok && cl.Common().IsInvoke() && cl.Common().Method.Name() == "Exec" {
					actErr = ex
				}
			}
		})
	}
	if actErr == nil {
		c.R.Break("C18-R5: Step does not execute the node's action")
		return
	}
	// verdict of a fact set about the action: +1 it failed, -1 it succeeded, 0 unknown
	verdict := func(fs []flow.Fact) int {
		for _, f := range fs {
			bo, ok := f.Cond.(*ssa.BinOp)
			if !ok || (bo.Op != token.NEQ && bo.Op != token.EQL) {
				continue
			}
			var v ssa.Value
			switch {
			case ssau.IsNilConst(bo.Y):
				v = bo.X
			case ssau.IsNilConst(bo.X):
				v = bo.Y
			default:
				continue
			}
			hit, only := false, true
			for _, d := range deepDefsRecords(v, stepFns) {
				switch {
				case d == actErr:
					hit = true
				case ssau.IsNilConst(d):
				default:
					only = false
				}
			}
			if !hit || !only {
				continue
			}
			if (bo.Op == token.NEQ) == f.True {
				return 1
			}
			// "is nil": a success only if the value is the action's error and nothing else
			if ds := deepDefsRecords(v, stepFns); len(ds) == 1 {
				return -1
			}
		}
		return 0
	}
	// failedAt: the action is known to have failed at b: by the facts at b, or b lies in a helper that is only
	// called where the action is known to have failed (`if err != nil { return s.actionFailed(bs, err, ...) }`)
	var failedAtD func(b *ssa.BasicBlock, depth int) bool
	failedAtD = func(b *ssa.BasicBlock, depth int) bool {
		if verdict(flow.FactsAt(b)) == 1 {
			return true
		}
		if b.Parent() == step || depth > 4 {
			return false
		}
		sites := callSitesOf(b.Parent(), stepFns)
		for _, s := range sites {
			if !failedAtD(s.Block(), depth+1) {
				return false
			}
		}
		return len(sites) > 0
	}
	failedAt := func(b *ssa.BasicBlock) bool { return failedAtD(b, 0) }
	var stParam *ssa.Parameter
	for _, p := range step.Params {
		if ssau.TypeIs(p.Type(), prog.Abs("core"), "State") {
			stParam = p
		}
	}
	// judgeLeaf: one definition of a bindings value used on the failure path
	judgeLeaf := func(d ssa.Value) (bool, string) {
		if _, is := isFieldLoad(d, "core", "Execution", "Bs"); is {
			return false, "they can be the failed execution's bindings (" + c.posv(d) + "), which carry none of the machine's permanent bindings"
		}
		cl, isCall := d.(*ssa.Call)
		if !isCall {
			if _, is := isFieldLoad(d, "core", "State", "Bs"); is {
				return true, "" // the given bindings themselves (C06 decides that they are not written)
			}
			return false, "they can be " + d.String() + " (" + c.posv(d) + ")"
		}
		sc := cl.Common().StaticCallee()
		switch {
		case sc != nil && sc.Name() == "Copy" && len(cl.Common().Args) == 1:
			// a copy of what? follow the receiver
			for _, r := range deepDefs(cl.Common().Args[0], scope) {
				if base, is := isFieldLoad(r, "core", "State", "Bs"); !is || (stParam != nil && base != ssa.Value(stParam)) {
					if c2, isC2 := r.(*ssa.Call); isC2 && c2.Common().StaticCallee() != nil && c2.Common().StaticCallee().Name() == "Copy" {
						continue
					}
					return false, "they can be a copy of something other than the given state's bindings (" + c.pos(cl) + ")"
				}
			}
			return true, ""
		case sc != nil && (sc.Name() == "Extend" || sc.Name() == "Extendm"):
			return true, "" // extension of a value judged at its own site
		}
		return false, "they can be the result of " + ssau.CalleeName(cl) + " (" + c.pos(cl) + "), not the machine's bindings"
	}
	// judge: every way the value can come about that is not known to be the success path
	judge := func(v ssa.Value, at *ssa.BasicBlock, onlyFailed bool) (bool, string, int) {
		var base []flow.Fact
		if at != nil {
			base = flow.FactsAt(at)
		}
		seen := 0
		for _, src := range sourcesWithFactsAt(v, stepFns, base) {
			vd := verdict(flow.Expand(src.facts))
			if vd == -1 || (onlyFailed && vd != 1) {
				continue
			}
			seen++
			if ok, why := judgeLeaf(src.leaf); !ok {
				return false, why, seen
			}
		}
		return seen > 0, "no definition found on the failure path", seen
	}
	n := 0
	for _, f := range stepFns {
		ssau.Instrs(f, func(in ssa.Instruction) {
			switch x := in.(type) {
			case *ssa.Store:
				if !ssau.IsField(x.Addr, prog.Abs("core"), "State", "Bs") || !failedAt(x.Block()) {
					return
				}
				_, _, base, _ := ssau.FieldOf(x.Addr)
				if !localFresh(base) {
					return
				}
				n++
				ok, why, _ := judge(x.Val, x.Block(), false)
				c.R.Check(ok, "C18-R5", fmt.Sprintf("Step: bindings of the error state #%d", n), c.pos(x), "a copy of the given state's bindings (extended with the error texts)", "after a failed action the next state's bindings are not the machine's: "+why)
			case *ssa.Call:
				sc := x.Common().StaticCallee()
				if sc == nil || sc.Name() != "consider" {
					return
				}
				// the bindings operand: the argument of Bindings type
				for _, a := range x.Common().Args {
					if !isBindingsT(a.Type()) {
						continue
					}
					ok, why, seen := judge(a, x.Block(), true)
					if seen == 0 {
						continue
					}
					n++
					c.R.Check(ok, "C18-R5", fmt.Sprintf("Step: bindings handed to branch evaluation after a failed action #%d", n), c.pos(x), "a copy of the given state's bindings (extended with the error texts)", "after a failed action the branches are evaluated on bindings that are not the machine's: "+why)
				}
			}
		})
	}
	if n == 0 {
		c.R.Break("C18-R5: no use of bindings on the action-failure path of Step found")
	}
}

package rules

import (
	"fmt"
	"go/types"
	"strings"

	"golang.org/x/tools/go/ssa"

	"sheensverif/internal/prog"
	"sheensverif/internal/pta"
	"sheensverif/internal/ssau"
)

func init() { Registry["C06"] = C06; Registry["C03"] = C03 }

var coreEngine = map[string]bool{"core": true, "match": true}

// stepWalkAnalysis runs E1 from Spec.Step and Spec.Walk with every argument protected.
func (c *Ctx) stepWalkAnalysis() (*pta.Analysis, *ssa.Function, *ssa.Function) {
	step := c.fn("core", "Spec", "Step")
	walk := c.fn("core", "Spec", "Walk")
	if step == nil || walk == nil {
		return nil, nil, nil
	}
	if len(step.Params) != 6 || len(walk.Params) != 6 {
		c.R.Break("anchor changed: Step/Walk expected (spec, ctx, state, pending, control, props)")
		return nil, nil, nil
	}
	names := []string{"spec", "", "state", "pending", "control", "props"}
	levels := []int{4, 0, 3, 2, 2, 2}
	a := pta.New(pta.Config{
		Prog:       c.P,
		EnginePkgs: coreEngine,
		Entries:    []*ssa.Function{step, walk},
		Roots: map[*ssa.Function]map[int]pta.RootSpec{
			step: rootsByPos(names, levels),
			walk: rootsByPos(names, levels),
		},
	})
	a.Run()
	c.noteAnalysis(a)
	return a, step, walk
}

// wrapperAnalysis runs E1 from FuncAction.Exec — the wrapper through which every
// action and guard of a compiled spec runs (C18-R2) and which the Step/Walk
// analysis reaches only as a callback it cuts — with the receiver, the
// bindings and the props protected.
func (c *Ctx) wrapperAnalysis() (*pta.Analysis, *ssa.Function) {
	exec := c.fn("core", "FuncAction", "Exec")
	if exec == nil {
		return nil, nil
	}
	if len(exec.Params) != 4 {
		c.R.Break("anchor changed: FuncAction.Exec expected (action, ctx, bindings, props)")
		return nil, nil
	}
	a := pta.New(pta.Config{
		Prog:       c.P,
		EnginePkgs: coreEngine,
		Entries:    []*ssa.Function{exec},
		Roots: map[*ssa.Function]map[int]pta.RootSpec{
			exec: rootsByPos([]string{"action", "", "bs", "props"}, []int{2, 0, 2, 2}),
		},
		External: stdExternal,
	})
	a.Run()
	c.noteAnalysis(a)
	return a, exec
}

// wrapperEffects reports writes of the action wrapper to what it is given or to package-level state.
func (c *Ctx) wrapperEffects(rule string, globalsOnly bool) {
	a, _ := c.wrapperAnalysis()
	if a == nil {
		return
	}
	c.reportEffects(rule, a, func(e pta.Effect) bool {
		if globalsOnly {
			return e.Target.Kind == pta.KGlobal || e.Target.Kind == pta.KGlobalSub
		}
		return true
	})
	c.dischargeWrites(rule, a)
}

// C06: the engine holds no state.
func C06(c *Ctx) {
	c.R.Explanation = "Decides two structural necessary conditions of 'processing never modifies what it is given': (R1) no store, map update, delete, copy or append in the call-graph closure of Spec.Step / Spec.Walk (packages core, match; callbacks cut by A2) may target memory reachable from the spec, state, pending message(s), control or props arguments, or a package-level variable; (R2) the bindings map of every state returned through Stride.From/To (and Walked.Strides) is never the bindings map of the given state; (R3) the in-repo ECMAScript interpreter, which E1 reaches only through the action callback it cuts, hands scripts nothing from which the caller's bindings (any depth) or the props map are reachable. (R4) the same for FuncAction.Exec, the wrapper every action and guard runs through, analysed as an entry point of its own with its receiver, bindings and props protected. Decided by an inclusion-based points-to/effect analysis over SSA for all paths and inputs at once. Not decided: equality of repeated runs, sharing below the top-level bindings map."
	c.R.Rule("C06-R1", "E1", "no write through any argument of Step/Walk nor to a package-level variable", 10)
	c.R.Rule("C06-R2", "E1", "returned states' bindings maps never alias the given state's bindings map", 3)
	c.R.Rule("C06-R4", "E1", "the action wrapper (FuncAction.Exec) writes nothing it is given and no package-level state", 2)
	c.shareRule("C03", "C03-R1", "C06-R8", "the matcher every step calls keeps nothing between calls: no memo, no counter, no tuned setting survives a step")
	c.shareRule("C10", "C10-R3", "C06-R9", "the in-repo interpreter, which E1 reaches only through the callback it cuts, writes nothing it is given: the bindings of the state being stepped stay as they were")
	c.shareRule("C18", "C18-R6", "C06-R6", "a native action or guard works on its own copy of the given bindings (also with the permanent-bindings feature switched off)")
	c.R.Rule("C06-R5", "E1", "no script runtime outlives an execution (the engine keeps no state in one)", 3)
	c.R.Rule("C06-R3", "E1", "ECMAScript actions and guards see copies: no caller data reachable from values given to the script runtime", 1)
	a, step, walk := c.stepWalkAnalysis()
	if a == nil {
		return
	}
	c.reportEffects("C06-R1", a, nil)
	c.dischargeWrites("C06-R1", a)
	c.wrapperEffects("C06-R4", false)
	c.R.Rule("C06-R7", "E7", "who may call: a step reads neither the clock nor a random source (equal inputs, equal result)", 1)
	c.noClockOrChance("C06-R7", "Step/Walk: the result depends on the inputs only (no clock, no random source)", a, step, "what a step or walk returns depends on the time or on chance: repeating a call with equal inputs (a retry, the same message for a second machine) yields another result")

	// R2: aliasing of returned bindings maps.
	stateBs := a.RootObj("state", ".Bs")
	check := func(what string, locs []pta.Loc, pos string) {
		bad := false
		for _, l := range locs {
			if l.Obj == stateBs {
				bad = true
			}
		}
		c.R.Check(!bad, "C06-R2", what, pos, "may hold only: "+locsString(locs), "may be the caller's bindings map ("+stateBs.Name+"); holds: "+locsString(locs))
	}
	strideLocs := a.ReturnLocs(step, 0)
	if len(strideLocs) == 0 {
		c.R.Break("C06-R2: no returned *Stride found for Step")
	}
	check("Step:result.From.Bs", a.Deref(a.Deref(strideLocs, ".From"), ".Bs"), c.P.Pos(step.Pos()))
	check("Step:result.To.Bs", a.Deref(a.Deref(strideLocs, ".To"), ".Bs"), c.P.Pos(step.Pos()))
	wl := a.ReturnLocs(walk, 0)
	if len(wl) == 0 {
		c.R.Break("C06-R2: no returned *Walked found for Walk")
	}
	strides := a.Deref(a.Deref(wl, ".Strides"), "[]")
	check("Walk:result.Strides[].From.Bs", a.Deref(a.Deref(strides, ".From"), ".Bs"), c.P.Pos(walk.Pos()))
	check("Walk:result.Strides[].To.Bs", a.Deref(a.Deref(strides, ".To"), ".Bs"), c.P.Pos(walk.Pos()))
	// R3: the in-repo interpreter (reached through the action callback, which E1 cuts) gives scripts copies only
	if ea, _ := c.ecmaAnalysis(); ea != nil {
		if c.scriptIsolation("C06-R3", ea, false) == 0 {
			c.R.Break("C06-R3: no value handed to the script runtime found")
		}
	}
	// R5: no script runtime survives an execution (a recycled runtime keeps what scripts left on its built-ins:
	// state of the engine that is in no machine's node or bindings)
	if ea, ex := c.ecmaAnalysis(); ea != nil {
		c.runtimeFresh("C06-R5", ea, ex)
	}
	c.R.Extra["roots"] = []string{"spec", "state", "pending", "control", "props"}
	c.R.Extra["write_sites_examined"] = countReachedWrites(a)
}

func countReachedWrites(a *pta.Analysis) int {
	n := 0
	for _, w := range a.Writes {
		if a.Reached[w.Fn] {
			n++
		}
	}
	return n
}

// matchAnalysis runs E1 from the exported matching API with pattern, message,
// bindings and the matcher itself protected.
func (c *Ctx) matchAnalysis() (*pta.Analysis, []*ssa.Function) {
	mm := c.fn("match", "Matcher", "Match")
	ms := c.fn("match", "Matcher", "Matches")
	m := c.fn("match", "", "Match")
	if mm == nil || ms == nil || m == nil {
		return nil, nil
	}
	roots := map[*ssa.Function]map[int]pta.RootSpec{}
	for _, f := range []*ssa.Function{mm, ms, m} {
		r := map[int]pta.RootSpec{}
		for i, p := range f.Params {
			if ssau.TypeIs(p.Type(), prog.Abs("match"), "Matcher") {
				r[i] = pta.RootSpec{Name: "matcher", Levels: 3}
				continue
			}
			if isBindingsT(p.Type()) {
				r[i] = pta.RootSpec{Name: "bindings", Levels: 2}
				continue
			}
			if it, ok := p.Type().Underlying().(*types.Interface); ok && it.NumMethods() == 0 {
				// the API is (pattern, message[, bindings]): first empty-interface parameter is the pattern, second the message
				name := "pattern"
				for _, q := range r {
					if q.Name == "pattern" {
						name = "fact"
					}
				}
				r[i] = pta.RootSpec{Name: name, Levels: 2}
			}
		}
		if len(r) < 2 {
			c.R.Break("anchor changed: %s has no pattern/fact parameters", fname(f))
		}
		roots[f] = r
	}
	a := pta.New(pta.Config{Prog: c.P, EnginePkgs: map[string]bool{"match": true}, Entries: []*ssa.Function{mm, ms, m}, Roots: roots, External: stdExternal})
	a.Run()
	c.noteAnalysis(a)
	return a, []*ssa.Function{mm, ms, m}
}

// C03: Match is pure.
func C03(c *Ctx) {
	c.R.Explanation = "Decides structural necessary conditions of 'matching is a pure function': (R1) no store/map update/delete/copy/append reachable from Matcher.Match, Matcher.Matches or match.Match may target the pattern, the fact, the given bindings or a package-level variable (this is also the structural part of safe concurrent matching); (R2) no map in the returned slice is the given bindings map; (R3) no loop ranging directly over a Go map has early exits of two different outcome classes (error vs plain no-match), which would make the outcome depend on iteration order. (R5) bindings extended inside a loop over alternatives live in storage created in that iteration, so returned sets are independent maps. The matcher value itself is a protected root too (no hidden state, e.g. a memo table). Not decided: determinism of the result multiset in general."
	c.R.Rule("C03-R1", "E1", "inputs untouched: no write to pattern, fact, bindings or globals in Match's closure", 8)
	c.R.Rule("C03-R2", "E1", "returned binding sets never alias the given bindings", 3)
	c.R.Rule("C03-R3", "E3", "no map range with exits of two outcome classes (error vs no match)", 3)
	c.shareRule("C07", "C07-R9", "C03-R6", "a bound value is data: it is compared, never expanded as a pattern again (else the outcome depends on which member of a map is visited first)")
	c.shareRule("C01", "C01-R1", "C03-R7", "a binding is made once and later occurrences compare with it: a binding that can be overwritten makes the result depend on the order in which members are visited")
	c.R.Rule("C03-R5", "E5+E3", "results are independent: alternatives never share writable bindings", 2)
	a, entries := c.matchAnalysis()
	if a == nil {
		return
	}
	mm, ms, m := entries[0], entries[1], entries[2]
	c.reportEffects("C03-R1", a, nil)
	c.dischargeWrites("C03-R1", a)
	c.R.Rule("C03-R8", "E7", "who may call: the matcher reads neither the clock nor a random source", 1)
	c.noClockOrChance("C03-R8", "Match: the outcome depends on the arguments only (no clock, no random source)", a, mm, "the matcher's outcome depends on the time or on chance: evaluating the same pattern, message and bindings again can give another result or another error")
	c.R.Rule("C03-R10", "E3", "a binding set enters a result once", 1)
	c.R.Rule("C03-R11", "E3", "an error about a ranged map as a whole is decided before the loop over it (inside the loop it would compete with a no-match exit at another key)", 1)
	c03NoRepeatedResult(c, "C03-R10", c.newMatchModel().fns)
	c.R.Rule("C03-R9", "E3", "no goroutine in the matcher shares a loop's variable with the loop", 1)
	c03GoroutineSharesLoopVar(c, "C03-R9", c.newMatchModel().fns)
	given := a.RootObj("bindings", "")
	for _, f := range []*ssa.Function{mm, ms, m} {
		locs := a.Deref(a.ReturnLocs(f, 0), "[]")
		if len(locs) == 0 {
			c.R.Break("C03-R2: no returned binding sets found for %s", fname(f))
			continue
		}
		bad := false
		for _, l := range locs {
			if l.Obj == given || l.Obj.Kind == pta.KRoot || l.Obj.Kind == pta.KGlobal || l.Obj.Kind == pta.KGlobalSub {
				bad = true
			}
		}
		c.R.Check(!bad, "C03-R2", fname(f)+":result[]", c.P.Pos(f.Pos()), "elements are only: "+locsString(locs), fmt.Sprintf("a returned binding set may be an input or shared object: %s", locsString(locs)))
	}
	c03Order(c)
}

// batchUntouched: E1 on Step/Walk, restricted to the messages: nothing writes memory reachable from the batch
// (Walk's slice of pending messages, Step's pending message).
func (c *Ctx) batchUntouched(rule string) {
	a, _, walk := c.stepWalkAnalysis()
	if a == nil {
		return
	}
	n := c.reportEffects(rule, a, func(e pta.Effect) bool { return strings.HasPrefix(e.Target.Name, "root:pending") })
	if n == 0 {
		c.R.Discharge(rule, "Walk: the given batch is only read", c.P.Pos(walk.Pos()), fmt.Sprintf("%d write sites examined, none can reach the messages", countReachedWrites(a)))
	}
}

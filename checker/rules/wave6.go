package rules

import (
	"fmt"
	"go/types"
	"os"
	"path/filepath"
	"reflect"
	"regexp"
	"sort"
	"strings"

	"golang.org/x/tools/go/ssa"

	"sheensverif/internal/flow"
	"sheensverif/internal/prog"
	"sheensverif/internal/pta"
	"sheensverif/internal/ssau"
)

// Rules added after the sixth probing wave.

// clockOrChance: names of external functions whose result differs from call to call or from machine to machine.
func clockOrChance(name string) bool {
	for _, p := range []string{"time.Now", "time.Since", "time.Until", "time.After", "time.Tick", "time.NewTimer", "time.NewTicker", "time.AfterFunc", "time.Sleep",
		"math/rand.", "(*math/rand.", "math/rand/v2.", "crypto/rand.", "os.Getpid", "os.Hostname", "runtime.NumGoroutine"} {
		if strings.HasPrefix(name, p) {
			return true
		}
	}
	return false
}

// noClockOrChance: no function in the closure of the analysis calls the clock or a random source (a result that
// depends on them is not a function of the arguments: repeating the call, or making it on another machine, gives
// another answer).
func (c *Ctx) noClockOrChance(rule, key string, a *pta.Analysis, entry *ssa.Function, what string) {
	var bad []string
	n := 0
	var fns []*ssa.Function
	for f := range a.Reached {
		fns = append(fns, f)
	}
	sort.Slice(fns, func(i, j int) bool { return fname(fns[i]) < fname(fns[j]) })
	for _, f := range fns {
		ssau.Instrs(f, func(in ssa.Instruction) {
			ci, ok := in.(ssa.CallInstruction)
			if !ok {
				return
			}
			n++
			if name := ssau.CalleeName(ci); clockOrChance(name) {
				bad = append(bad, fmt.Sprintf("%s calls %s (%s)", fname(f), name, c.pos(in)))
			}
		})
	}
	c.R.Check(len(bad) == 0, rule, key, c.P.Pos(entry.Pos()), fmt.Sprintf("%d calls in %d functions examined, none reads the clock or a random source", n, len(fns)), what+": "+strings.Join(bad, "; "))
}

// c02CandidateBindings: C02-R14.  Inside the matcher every recursive matching step works on the candidate bindings it
// was reached with (or a copy of them): a step that starts from bindings made on the spot finds nothing that the
// candidates have bound and contributes nothing to them, so the solutions of that part of the pattern are lost.
// c02NoPrintedIdentity: C02-R15.  Binding sets and values are never identified by their printed or encoded form (a map
// keyed by fmt.Sprint / json.Marshal output merges 1 and "1"): the matcher drops no alternative.
func c02CandidateBindings(c *Ctx, rule, rule2 string, m *matchModel) {
	entries := map[*ssa.Function]bool{}
	for _, e := range []*ssa.Function{c.P.Func("match", "Matcher", "Match"), c.P.Func("match", "Matcher", "Matches"), c.P.Func("match", "", "Match")} {
		if e != nil {
			entries[e] = true
		}
	}
	isBs := func(v ssa.Value) bool {
		t := v.Type().String()
		return strings.HasSuffix(t, "match.Bindings") && !strings.HasPrefix(t, "[]")
	}
	hasBs := func(t string) bool { return strings.Contains(t, "match.Bindings") }
	var derives func(v ssa.Value, depth int) bool
	derives = func(v ssa.Value, depth int) bool {
		if depth > 8 {
			return false
		}
		switch x := v.(type) {
		case *ssa.Parameter:
			return hasBs(x.Type().String())
		case *ssa.FreeVar:
			return hasBs(x.Type().String())
		case *ssa.MakeMap, *ssa.MakeSlice, *ssa.Const:
			return false
		case *ssa.Call:
			// a copy (or other derivative) made by a function of the matcher from candidate bindings
			for _, a := range x.Common().Args {
				if hasBs(a.Type().String()) && derives(a, depth+1) {
					return true
				}
			}
			return false
		case *ssa.Phi:
			for _, e := range x.Edges {
				if !derives(e, depth+1) {
					return false
				}
			}
			return len(x.Edges) > 0
		case *ssa.ChangeType:
			return derives(x.X, depth+1)
		case *ssa.Extract:
			return derives(x.Tuple, depth+1)
		case *ssa.UnOp:
			return derives(x.X, depth+1)
		case *ssa.IndexAddr:
			return derives(x.X, depth+1)
		case *ssa.Index:
			return derives(x.X, depth+1)
		case *ssa.Slice:
			return derives(x.X, depth+1)
		case *ssa.Next:
			return derives(x.Iter, depth+1)
		case *ssa.Range:
			return derives(x.X, depth+1)
		case *ssa.FieldAddr:
			return derives(x.X, depth+1)
		case *ssa.Alloc:
			// a local variable or a literal: everything stored into it
			n := 0
			ok := true
			var visit func(addr ssa.Value)
			visit = func(addr ssa.Value) {
				for _, r := range ssau.Referrers(addr) {
					switch u := r.(type) {
					case *ssa.Store:
						if u.Addr == addr {
							n++
							if !derives(u.Val, depth+1) {
								ok = false
							}
						}
					case *ssa.IndexAddr:
						visit(u)
					case *ssa.FieldAddr:
						visit(u)
					}
				}
			}
			visit(x)
			return ok && n > 0
		}
		return false
	}
	n, n2 := 0, 0
	for _, f := range m.fns {
		ssau.Instrs(f, func(in ssa.Instruction) {
			cl, ok := in.(*ssa.Call)
			if !ok {
				return
			}
			name := ssau.CalleeName(cl)
			// printed / encoded identity
			if strings.HasPrefix(name, "fmt.Sprint") || name == "encoding/json.Marshal" || name == "reflect.DeepEqual" {
				var used func(v ssa.Value, depth int) string
				used = func(v ssa.Value, depth int) string {
					if depth > 4 {
						return ""
					}
					for _, r := range ssau.Referrers(v) {
						switch u := r.(type) {
						case *ssa.MapUpdate:
							if u.Key == v {
								return "a map key"
							}
						case *ssa.Lookup:
							if u.Index == v {
								return "a map key"
							}
						case *ssa.Extract:
							if w := used(u, depth+1); w != "" {
								return w
							}
						case *ssa.Convert:
							if w := used(u, depth+1); w != "" {
								return w
							}
						case *ssa.MakeInterface:
							if w := used(u, depth+1); w != "" {
								return w
							}
						case *ssa.BinOp:
							if u.Op.String() == "==" || u.Op.String() == "!=" {
								return "a comparison"
							}
							if w := used(u, depth+1); w != "" {
								return w
							}
						case *ssa.If:
							return "a condition"
						}
					}
					return ""
				}
				n2++
				w := used(cl, 0)
				c.R.Check(w == "", rule2, fmt.Sprintf("%s: %s #%d does not identify values", fname(f), name, n2), c.pos(cl), "the text is not used as a key or in a comparison", "the matcher identifies values or binding sets by their printed or encoded form ("+name+" used as "+w+"): different values that print alike (1 and \"1\") are taken for one, and an alternative is dropped")
				return
			}
			sc := cl.Common().StaticCallee()
			if sc == nil || !m.inSet[sc] || entries[f] {
				return
			}
			for i, a := range cl.Common().Args {
				if !isBs(a) || i >= len(sc.Params) {
					continue
				}
				// only functions that match: they take a pattern and a fact as well
				if sc.Signature.Params().Len() < 3 {
					continue
				}
				n++
				c.R.Check(derives(a, 0), rule, fmt.Sprintf("%s: %s #%d continues from the candidate bindings", fname(f), sc.Name(), n), c.pos(cl), "the bindings handed on derive from the bindings this step was reached with", "a matching step inside the matcher starts from bindings made on the spot: what the candidates have bound is not seen there and what is bound there is lost — solutions of that part of the pattern disappear from the result")
			}
		})
	}
	if n == 0 {
		c.R.Break(rule + ": no internal matching step with bindings found")
	}
	if n2 == 0 {
		c.R.Discharge(rule2, "matcher: nothing is identified by its printed form", "match/match.go", "no fmt.Sprint*/json.Marshal/reflect.DeepEqual call in the matcher's closure")
	}
}

// c01ConstantCompare: C01-R12.  A string of the pattern is compared with a string of the message only after it has been
// classified as a constant: the comparison is dominated by IsConstant(...) = true (or IsVariable(...) = false).  A
// comparison made before the classification lets a pattern variable "match" a message string that merely spells its
// name, whatever the variable is bound to.
//
// The classification may have been made by the caller(s): a comparison in an unexported helper that is only ever
// called directly counts as classified when every call site of the helper is (at that site, for the string handed
// in), over several levels.
func c01ConstantCompare(c *Ctx, rule string, m *matchModel) {
	n := 0
	for _, f := range m.fns {
		ssau.Instrs(f, func(in ssa.Instruction) {
			bo, ok := in.(*ssa.BinOp)
			if !ok || (bo.Op.String() != "==" && bo.Op.String() != "!=") {
				return
			}
			if bo.X.Type().String() != "string" || bo.Y.Type().String() != "string" {
				return
			}
			p, fct := bo.X, bo.Y
			if m.has(fct, "P") && m.has(p, "F") && !m.has(p, "P") {
				p, fct = fct, p
			}
			if !(m.has(p, "P") && m.has(fct, "F") && !m.has(fct, "P")) {
				return
			}
			n++
			classified := c01ClassifiedConstant(c, bo.Block(), p, map[*ssa.Function]bool{}, 0)
			c.R.Check(classified, rule, fmt.Sprintf("%s: pattern string compared with a message string #%d only as a constant", fname(f), n), c.pos(bo), "dominated by IsConstant = true (or IsVariable = false)", "a string of the pattern is compared with the message before it is known not to be a variable: a variable then matches a message string that spells its name, whatever it is bound to (and is not bound when it is free)")
		})
	}
	if n == 0 {
		c.R.Break(rule + ": no comparison of a pattern string with a message string found in the matcher")
	}
}

// c01StringRoot: the value a string was taken from by assertion, boxing or renaming (`vv` of `switch vv := p.(type)`
// and `p` itself are the same string for the classification).
func c01StringRoot(v ssa.Value) ssa.Value {
	for i := 0; i < 16; i++ {
		switch x := v.(type) {
		case *ssa.ChangeType:
			v = x.X
		case *ssa.MakeInterface:
			v = x.X
		case *ssa.ChangeInterface:
			v = x.X
		case *ssa.TypeAssert:
			v = x.X
		case *ssa.Extract:
			ta, ok := x.Tuple.(*ssa.TypeAssert)
			if !ok || x.Index != 0 {
				return v
			}
			v = ta.X
		default:
			return v
		}
	}
	return v
}

// c01ClassifiedConstant: at block b the pattern string p is known to be a constant.  Either a fact that dominates b
// says so (IsConstant(..) = true, IsVariable(..) = false), or b lies in an unexported function of the matcher that
// is only ever called directly, the string is one of its parameters, and at every one of its call sites the
// argument handed in is classified in the same sense (the caller tested it, or the caller's callers did).
func c01ClassifiedConstant(c *Ctx, b *ssa.BasicBlock, p ssa.Value, busy map[*ssa.Function]bool, depth int) bool {
	root := c01StringRoot(p)
	for _, ft := range flow.FactsAt(b) {
		cond, pol := ft.Cond, ft.True
		if u, isU := cond.(*ssa.UnOp); isU && u.Op.String() == "!" {
			cond, pol = u.X, !pol
		}
		cl, isC := cond.(*ssa.Call)
		if !isC || cl.Common().StaticCallee() == nil {
			continue
		}
		name := cl.Common().StaticCallee().Name()
		if !(name == "IsConstant" && pol) && !(name == "IsVariable" && !pol) {
			continue
		}
		if depth == 0 {
			return true
		}
		// in a caller: the classification is of the string that is handed to the helper
		for _, a := range cl.Common().Args {
			if c01StringRoot(a) == root {
				return true
			}
		}
	}
	f := b.Parent()
	if depth > 6 || f.Parent() != nil || f.Object() == nil || f.Object().Exported() || busy[f] {
		return false
	}
	idx := -1
	for i, q := range f.Params {
		if ssa.Value(q) == root {
			idx = i
		}
	}
	if idx < 0 {
		return false
	}
	// every way into f is a direct call in package match
	var sites []ssa.CallInstruction
	direct := true
	for _, g := range c.P.FuncsIn(prog.PkgOf(f)) {
		ssau.Instrs(g, func(in ssa.Instruction) {
			ci, isCall := in.(ssa.CallInstruction)
			if isCall && ci.Common().StaticCallee() == f {
				sites = append(sites, ci)
			} else if isCall && ci.Common().StaticCallee() == nil {
				for _, cal := range c.P.Callees(ci) {
					if cal == f {
						direct = false
					}
				}
			}
			for _, op := range in.Operands(nil) {
				if *op != ssa.Value(f) {
					continue
				}
				if !isCall || ci.Common().Value != ssa.Value(f) {
					direct = false // the function is used as a value
				}
			}
		})
	}
	if !direct || len(sites) == 0 {
		return false
	}
	busy[f] = true
	defer delete(busy, f)
	for _, s := range sites {
		if _, isCall := s.(*ssa.Call); !isCall {
			return false
		}
		if idx >= len(s.Common().Args) {
			return false
		}
		// a recursive call that hands on the helper's own parameter adds no new way in
		if s.Parent() == f && c01StringRoot(s.Common().Args[idx]) == root {
			continue
		}
		if !c01ClassifiedConstant(c, s.Block(), s.Common().Args[idx], busy, depth+1) {
			return false
		}
	}
	return true
}

// c04AllCandidates: C04-R16.  "The first branch whose pattern matches and whose guard returns bindings": every set of
// bindings the matcher found is offered to the guard, in order, until one is accepted.  The list that the guard loop
// ranges over is the matcher's result itself, not a part of it.
func c04AllCandidates(c *Ctx, rule string) {
	try := c.P.Func("core", "Branch", "try")
	if try == nil {
		c.R.Break(rule + ": core.(*Branch).try not found")
		return
	}
	scope := []*ssa.Function{try}
	for _, f := range pkgClosure(try) {
		if f != try && prog.PkgOf(f) == "core" {
			scope = append(scope, f)
		}
	}
	n := 0
	for _, f := range scope {
		ssau.Instrs(f, func(in ssa.Instruction) {
			cl, ok := in.(*ssa.Call)
			if !ok || !cl.Common().IsInvoke() || cl.Common().Method.Name() != "Exec" {
				return
			}
			isGuard := false
			for _, d := range deepDefs(cl.Common().Value, scope) {
				if _, is := isFieldLoad(d, "core", "Branch", "Guard"); is {
					isGuard = true
				}
			}
			if !isGuard {
				return
			}
			// the loop around the guard: in this function, or around the place from which the helper (a method, a
			// called method value) that executes the guard is run
			L, _ := guardLoopOf(cl, scope)
			if L == nil {
				return
			}
			op := loopOperand(L)
			if op == nil {
				return
			}
			n++
			part := ""
			var walk func(v ssa.Value, depth int)
			seen := map[ssa.Value]bool{}
			walk = func(v ssa.Value, depth int) {
				if v == nil || seen[v] || depth > 10 {
					return
				}
				seen[v] = true
				for _, d := range deepDefs(v, scope) {
					switch x := d.(type) {
					case *ssa.Slice:
						if _, isAl := x.X.(*ssa.Alloc); isAl {
							continue // a literal
						}
						if x.Low != nil || x.High != nil {
							part = c.pos(x)
							continue
						}
						walk(x.X, depth+1)
					case *ssa.UnOp:
						// a local variable
						if al, isAl := x.X.(*ssa.Alloc); isAl {
							for _, sv := range storedInto(al) {
								walk(sv, depth+1)
							}
						}
					}
				}
			}
			walk(op, 0)
			c.R.Check(part == "", rule, fmt.Sprintf("%s: guard loop #%d offers every candidate", fname(f), n), c.pos(cl), "the guard loop ranges over the matcher's result itself", "the guard is only asked about a part of the candidate bindings the matcher found (sub-slice at "+part+"): a branch whose pattern matches and whose guard would accept a later candidate is not followed")
		})
	}
	if n == 0 {
		c.R.Break(rule + ": no guard loop found in Branch.try")
	}
}

// c14Loop: C14-R10.  The crew's loop presents each received message once and hands every result on: ProcessMsg has one
// call site in Crew.Loop (with its helpers), outside any loop nested in the receive loop, and on the way from that
// call to the send on the output channel the only condition is that ProcessMsg reported no error (what the result
// contains does not decide whether the host gets it: a result without changes can still carry emitted messages).
func c14Loop(c *Ctx, rule string) {
	loop := c.P.Func("sio", "Crew", "Loop")
	pm := c.P.Func("sio", "Crew", "ProcessMsg")
	if loop == nil || pm == nil {
		c.R.Break(rule + ": sio.(*Crew).Loop or ProcessMsg not found")
		return
	}
	c.R.Fn(fname(loop))
	scope := []*ssa.Function{loop}
	for _, f := range pkgClosure(loop) {
		if f != loop && f != pm && prog.PkgOf(f) == "sio" && !inClosure(pm, f) {
			scope = append(scope, f)
		}
	}
	var calls []*ssa.Call
	for _, f := range scope {
		ssau.Instrs(f, func(in ssa.Instruction) {
			if cl, ok := in.(*ssa.Call); ok && cl.Common().StaticCallee() == pm {
				calls = append(calls, cl)
			}
		})
	}
	okOne := len(calls) == 1
	why := fmt.Sprintf("%d calls of ProcessMsg in Crew.Loop", len(calls))
	if okOne {
		cl := calls[0]
		loops := flow.Loops(cl.Parent())
		L := flow.InnermostLoop(loops, cl.Block())
		// the receive loop is the outermost loop around the call; the call must not be in a loop nested in it
		for _, l2 := range loops {
			if L != nil && l2 != L && l2.Blocks[cl.Block()] && len(l2.Blocks) > len(L.Blocks) {
				okOne = false
				why = "ProcessMsg is called in a loop inside the receive loop (" + c.pos(cl) + ")"
			}
		}
		if cl.Parent() != loop && flow.InCycle(cl.Block()) {
			okOne = false
			why = "ProcessMsg is called in a loop of a helper (" + c.pos(cl) + ")"
		}
	}
	at := c.P.Pos(loop.Pos())
	if len(calls) > 0 {
		at = c.pos(calls[0])
	}
	c.R.Check(okOne, rule, "Crew.Loop: a received message is processed once", at, "one call of ProcessMsg, not in an inner loop", why+": a message that failed (after the machines had already consumed it) or any message is presented to the machines again")
	if len(calls) != 1 {
		return
	}
	cl := calls[0]
	var errv ssa.Value
	for _, r := range ssau.Referrers(cl) {
		if ex, ok := r.(*ssa.Extract); ok && ex.Index == 1 {
			errv = ex
		}
	}
	before := map[flow.Fact]bool{}
	for _, ft := range flow.FactsAt(cl.Block()) {
		before[ft] = true
	}
	n := 0
	ssau.Instrs(cl.Parent(), func(in ssa.Instruction) {
		sd, ok := in.(*ssa.Send)
		if !ok || !ssau.TypeIs(sd.X.Type(), prog.Abs("sio"), "Result") {
			return
		}
		n++
		var bad []string
		for _, ft := range flow.FactsAt(sd.Block()) {
			if before[ft] {
				continue
			}
			if bo, isB := ft.Cond.(*ssa.BinOp); isB && ssau.IsNilConst(bo.Y) && bo.X == errv {
				continue
			}
			bad = append(bad, ft.Cond.String()+" ("+c.pos(ft.If)+")")
		}
		c.R.Check(len(bad) == 0, rule, fmt.Sprintf("Crew.Loop: result hand-over #%d depends only on ProcessMsg's error", n), c.pos(sd), "between ProcessMsg and the send on the output channel only 'err == nil' is tested", "whether the host gets a result also depends on "+strings.Join(bad, ", ")+": messages that machines emitted are not reported when that test fails")
	})
	if n == 0 {
		c.R.Violate(rule, "Crew.Loop: results are handed to the output coupling", c.pos(cl), "no send of the result on a channel found in the function that calls ProcessMsg")
	}
}

func inClosure(root, f *ssa.Function) bool {
	for _, g := range pkgClosure(root) {
		if g == f {
			return true
		}
	}
	return false
}

// c13ParseAlways: C13-R1.  ParsePatterns brings every pattern into canonical form whatever syntax the spec declares:
// no successful return of ParsePatterns is decided by the value of Spec.PatternSyntax ("none" is also what an author
// can declare for patterns given as Go or YAML structures, which still have to be canonicalised).
func c13ParseAlways(c *Ctx, rule string) {
	pp := c.P.Func("core", "Spec", "ParsePatterns")
	if pp == nil {
		c.R.Break(rule + ": core.(*Spec).ParsePatterns not found")
		return
	}
	n := 0
	for _, b := range pp.Blocks {
		ret, ok := b.Instrs[len(b.Instrs)-1].(*ssa.Return)
		if !ok || len(ret.Results) != 1 {
			continue
		}
		for _, d := range phiEdgesWithBlocks(ret.Results[0], b) {
			if !ssau.IsNilConst(d.v) {
				continue
			}
			n++
			bad := ""
			for _, ft := range flow.Expand(flow.FactsAt(d.b)) {
				bo, isB := ft.Cond.(*ssa.BinOp)
				if !isB {
					continue
				}
				for _, opd := range []ssa.Value{bo.X, bo.Y} {
					if _, is := isFieldLoad(opd, "core", "Spec", "PatternSyntax"); is {
						bad = c.pos(ft.If)
					}
				}
			}
			c.R.Check(bad == "", rule, fmt.Sprintf("ParsePatterns: successful return #%d does not depend on the declared syntax", n), c.pos(ret), "no test of Spec.PatternSyntax on the way", "ParsePatterns returns successfully because of the value of PatternSyntax ("+bad+") without having canonicalised the patterns: a spec that declares that syntax (or a reloaded compiled spec) keeps Go ints, typed maps and the like in its patterns, which the matcher does not recognise")
		}
	}
	if n == 0 {
		c.R.Break(rule + ": ParsePatterns has no successful return")
	}
}

// c13FindTypedNil: C13-R4.  "Unknown interpreters are rejected at compile time": ActionSource.Compile rejects a nil
// Interpreter, so every implementation of core.Interpreters in the repository has to answer the nil interface for a
// name it does not know.  A pointer taken from a map without the ok flag and boxed into the interface is never the
// nil interface (a typed nil), so the unknown name is accepted and the machine fails (or crashes) at run time.
func c13FindTypedNil(c *Ctx, rule string) {
	n := 0
	for _, f := range c.P.AllFuncs {
		if f.Blocks == nil || f.Name() != "Find" || f.Signature.Recv() == nil || prog.PkgOf(f) == "" {
			continue
		}
		res := f.Signature.Results()
		if res.Len() != 1 || !ssau.TypeIs(res.At(0).Type(), prog.Abs("core"), "Interpreter") {
			continue
		}
		c.R.Fn(fname(f))
		for _, b := range f.Blocks {
			ret, ok := b.Instrs[len(b.Instrs)-1].(*ssa.Return)
			if !ok || len(ret.Results) != 1 {
				continue
			}
			for _, d := range phiEdgesWithBlocks(ret.Results[0], b) {
				n++
				bad := ""
				if mi, isMI := d.v.(*ssa.MakeInterface); isMI {
					if _, isPtr := mi.X.Type().Underlying().(*types.Pointer); isPtr {
						switch x := mi.X.(type) {
						case *ssa.Lookup:
							if !x.CommaOk {
								bad = c.pos(x)
							}
						case *ssa.Extract:
							if lk, isLk := x.Tuple.(*ssa.Lookup); isLk && x.Index == 0 {
								guarded := false
								for _, ft := range flow.FactsAt(d.b) {
									if ex, isEx := ft.Cond.(*ssa.Extract); isEx && ex.Tuple == ssa.Value(lk) && ex.Index == 1 && ft.True {
										guarded = true
									}
									if bo, isB := ft.Cond.(*ssa.BinOp); isB && ssau.IsNilConst(bo.Y) && bo.X == ssa.Value(x) && ((bo.Op.String() == "!=" && ft.True) || (bo.Op.String() == "==" && !ft.True)) {
										guarded = true
									}
								}
								if !guarded {
									bad = c.pos(lk)
								}
							}
						}
					}
				}
				c.R.Check(bad == "", rule, fmt.Sprintf("%s: answer #%d for an unknown name is the nil interface", fname(f), n), c.pos(ret), "no pointer from an unchecked map lookup is boxed into the result", "the registry boxes the pointer it finds in its map ("+bad+") without checking that the name was there: for an unknown name the result is a non-nil interface holding a nil pointer, ActionSource.Compile accepts it, and the machine fails when it reaches the node")
			}
		}
	}
	if n == 0 {
		c.R.Break(rule + ": no implementation of core.Interpreters.Find found")
	}
}

// c12CompiledBinding: C12-R12.  A compiled action is bound to the interpreter that compiled it: the function that
// package core installs as FuncAction.F does not look the interpreter up again when it runs (a lookup at run time reads
// a table the host may be changing, and hands a program compiled by one interpreter to another).
func c12CompiledBinding(c *Ctx, rule string) {
	n := 0
	for _, f := range c.P.FuncsIn("core") {
		for _, st := range storesTo(f, "FuncAction", "F") {
			var g *ssa.Function
			switch x := st.Val.(type) {
			case *ssa.MakeClosure:
				g, _ = x.Fn.(*ssa.Function)
			case *ssa.Function:
				g = x
			}
			if g == nil || g.Blocks == nil {
				continue
			}
			n++
			bad := ""
			for _, h := range append([]*ssa.Function{g}, pkgClosure(g)...) {
				if prog.PkgOf(h) != "core" {
					continue
				}
				ssau.Instrs(h, func(in ssa.Instruction) {
					if ci, ok := in.(ssa.CallInstruction); ok && ci.Common().IsInvoke() && ci.Common().Method.Name() == "Find" && ssau.TypeIs(ci.Common().Value.Type(), prog.Abs("core"), "Interpreters") {
						bad = c.pos(in)
					}
				})
			}
			c.R.Check(bad == "", rule, fmt.Sprintf("%s: the installed action #%d runs with the interpreter that compiled it", fname(f), n), c.pos(st), "no lookup in core.Interpreters when the action runs", "the compiled action looks its interpreter up again each time it runs ("+bad+"): processing then reads a table the host may be changing (a data race), and a replaced entry is handed the program another interpreter compiled")
		}
	}
	if n == 0 {
		c.R.Break(rule + ": package core installs no FuncAction.F")
	}
}

// c10PropsValues: C10-R6.  What the engine and the hosts put into the step properties is what every script can reach
// as _.props.*: the interpreter copies the properties map itself but not what its entries refer to.  So an entry is a
// scalar, or a structure made for this call out of scalars — never a reference into the host's own data (a machine's
// spec source, its live bindings, the pending message).  Two entries are references by design and stay as they are:
// "ctx" (the call's context) and "crew" (the captain's handle on its crew, sio only, judged by C10-R4 / C15).
func c10PropsValues(c *Ctx, rule string) {
	byDesign := map[string]bool{"ctx": true, "crew": true}
	n := 0
	var judge func(v ssa.Value, depth int) string
	judge = func(v ssa.Value, depth int) string {
		if depth > 6 {
			return ""
		}
		switch x := v.(type) {
		case *ssa.MakeInterface:
			return judge(x.X, depth+1)
		case *ssa.ChangeType:
			return judge(x.X, depth+1)
		case *ssa.Convert:
			return judge(x.X, depth+1)
		case *ssa.Const:
			return ""
		case *ssa.MakeMap:
			for _, r := range ssau.Referrers(x) {
				if mu, ok := r.(*ssa.MapUpdate); ok && mu.Map == ssa.Value(x) {
					if w := judge(mu.Value, depth+1); w != "" {
						return w
					}
				}
			}
			return ""
		case *ssa.Phi:
			for _, e := range x.Edges {
				if w := judge(e, depth+1); w != "" {
					return w
				}
			}
			return ""
		}
		switch t := v.Type().Underlying().(type) {
		case *types.Basic:
			return ""
		case *types.Pointer, *types.Map, *types.Slice, *types.Chan:
			return v.Name() + " (" + v.Type().String() + ")"
		case *types.Interface:
			_ = t
			// an interface value that is handed through: a parameter (the pending message) or a loaded field
			switch v.(type) {
			case *ssa.Parameter, *ssa.UnOp, *ssa.Lookup, *ssa.Extract:
				return v.Name() + " (" + v.Type().String() + ")"
			}
		}
		return ""
	}
	for _, f := range c.P.FuncsIn("core", "sio", "cmd/mcrew", "cmd/mdb", "cmd/sheensio", "cmd/msimple", "sio/siostd", "sio/siomq") {
		ssau.Instrs(f, func(in ssa.Instruction) {
			mu, ok := in.(*ssa.MapUpdate)
			if !ok || !ssau.TypeIs(mu.Map.Type(), prog.Abs("core"), "StepProps") {
				return
			}
			key, isS := ssau.ConstString(mu.Key)
			if isS && byDesign[key] {
				return
			}
			// the copy loop of StepProps.Copy and the like: a value taken from another properties map
			if lk, isLk := stripIface(mu.Value).(*ssa.Extract); isLk {
				if nx, isNx := lk.Tuple.(*ssa.Next); isNx {
					if rg, isRg := nx.Iter.(*ssa.Range); isRg && ssau.TypeIs(rg.X.Type(), prog.Abs("core"), "StepProps") {
						return
					}
				}
			}
			n++
			w := judge(mu.Value, 0)
			k := key
			if !isS {
				k = "(computed key)"
			}
			c.R.Check(w == "", rule, fmt.Sprintf("%s: step property %q #%d is a scalar or made for the call", fname(f), k, n), c.pos(mu), "no reference into host-owned data", "the step properties carry a reference to data the host (or the caller) keeps using: "+w+" — the interpreter copies only the top-level properties map, so a script that assigns through _.props."+k+" changes it in place")
		})
	}
	if n == 0 {
		c.R.Break(rule + ": no entry of core.StepProps is set anywhere in the engine or the hosts")
	}
}

func stripIface(v ssa.Value) ssa.Value {
	for {
		switch x := v.(type) {
		case *ssa.MakeInterface:
			v = x.X
		case *ssa.ChangeType:
			v = x.X
		default:
			return v
		}
	}
}

// indexAsBound: the result of strings.Index / LastIndex / IndexByte ... (which is -1 when there is no match) is used as
// a bound of a slice expression or as an index only where a dominating test has excluded the negative case.  Returns
// one description per unguarded use in the given functions.
func indexAsBound(c *Ctx, fns []*ssa.Function) (bad []string, n int) {
	isIndexCall := func(v ssa.Value) *ssa.Call {
		cl, ok := v.(*ssa.Call)
		if !ok {
			return nil
		}
		name := ssau.CalleeName(cl)
		if strings.HasPrefix(name, "strings.Index") || strings.HasPrefix(name, "strings.LastIndex") || strings.HasPrefix(name, "bytes.Index") || strings.HasPrefix(name, "bytes.LastIndex") {
			return cl
		}
		return nil
	}
	var origin func(v ssa.Value, depth int) *ssa.Call
	origin = func(v ssa.Value, depth int) *ssa.Call {
		if v == nil || depth > 4 {
			return nil
		}
		if cl := isIndexCall(v); cl != nil {
			return cl
		}
		switch x := v.(type) {
		case *ssa.BinOp:
			if x.Op.String() == "+" || x.Op.String() == "-" {
				if cl := origin(x.X, depth+1); cl != nil {
					return cl
				}
				return origin(x.Y, depth+1)
			}
		case *ssa.Phi:
			for _, e := range x.Edges {
				if cl := origin(e, depth+1); cl != nil {
					return cl
				}
			}
		case *ssa.Convert:
			return origin(x.X, depth+1)
		}
		return nil
	}
	guarded := func(cl *ssa.Call, at *ssa.BasicBlock) bool {
		for _, ft := range flow.Expand(flow.FactsAt(at)) {
			bo, ok := ft.Cond.(*ssa.BinOp)
			if !ok {
				continue
			}
			if bo.X == ssa.Value(cl) || bo.Y == ssa.Value(cl) {
				switch bo.Op.String() {
				case "<", "<=", ">", ">=", "==", "!=":
					return true // any comparison of the result decides the case
				}
			}
		}
		return false
	}
	for _, f := range fns {
		ssau.Instrs(f, func(in ssa.Instruction) {
			var ops []ssa.Value
			switch x := in.(type) {
			case *ssa.Slice:
				ops = []ssa.Value{x.Low, x.High, x.Max}
			case *ssa.IndexAddr:
				ops = []ssa.Value{x.Index}
			case *ssa.Index:
				ops = []ssa.Value{x.Index}
			case *ssa.Lookup:
				if _, isStr := x.X.Type().Underlying().(*types.Basic); isStr {
					ops = []ssa.Value{x.Index}
				}
			default:
				return
			}
			for _, o := range ops {
				cl := origin(o, 0)
				if cl == nil {
					continue
				}
				n++
				if !guarded(cl, in.Block()) {
					bad = append(bad, fmt.Sprintf("%s: %s is used as a bound or index without a test of the no-match case (%s)", fname(f), ssau.CalleeName(cl), c.pos(in)))
				}
			}
		})
	}
	return
}

// c16RecordsComplete: C16-R9.  Storage.WriteState replaces a machine's whole record, so every record that
// Service.Process hands to it carries the machine's spec source next to its node and bindings: in Process (with its
// helpers in cmd/mcrew) MachineState.SpecSource is assigned from the live machine's SpecSource once per record — in the
// loop over the records, on every iteration — before the write.
// c05HostsIgnoreStopReason: C05-R15.  A host installs and stores the state a walk ended in whatever stopped the walk:
// no decision in the hosts depends on Walked.StoppedBecause (the next message has to start from the state the previous
// step produced, also after a walk that hit the step limit).
func c16RecordsComplete(c *Ctx, rule string) {
	proc := c.P.Func("cmd/mcrew", "Service", "Process")
	if proc == nil {
		c.R.Break(rule + ": cmd/mcrew.(*Service).Process not found")
		return
	}
	ok := false
	at := c.P.Pos(proc.Pos())
	for _, f := range append([]*ssa.Function{proc}, pkgClosure(proc)...) {
		if prog.PkgOf(f) != "cmd/mcrew" || f.Name() == "AddMachine" || f.Name() == "RemMachine" {
			continue
		}
		loops := flow.Loops(f)
		for _, st := range storesToPkg(f, "cmd/mcrew", "MachineState", "SpecSource") {
			if ssau.IsNilConst(st.Val) {
				continue
			}
			fromLive := false
			for _, d := range deepDefs(st.Val, []*ssa.Function{f}) {
				if _, is := isFieldLoad(d, "crew", "Machine", "SpecSource"); is {
					fromLive = true
				}
			}
			if !fromLive {
				continue
			}
			L := flow.InnermostLoop(loops, st.Block())
			every := L != nil
			if L != nil {
				for _, latch := range L.Latch {
					if !st.Block().Dominates(latch) {
						every = false
					}
				}
			}
			// or at the construction of the record (a composite literal: the store is to a fresh allocation)
			if _, _, base, _ := ssau.FieldOf(st.Addr); localFresh(base) {
				every = true
			}
			if every {
				ok = true
				at = c.pos(st)
			}
		}
	}
	c.R.Check(ok, rule, "Process: every record written carries the machine's spec source", at, "MachineState.SpecSource = the live machine's SpecSource, once per record", "the records that Process writes do not (all) carry the spec source: WriteState replaces the whole record, so after its first transition a machine's stored record has lost its specification and a crew rebuilt from the store cannot run it")
}

func c05HostsIgnoreStopReason(c *Ctx, rule string) {
	bad := ""
	n := 0
	for _, f := range c.P.FuncsIn("sio", "cmd/mcrew", "cmd/msimple", "cmd/sheensio", "crew") {
		for _, g := range ssau.WithAnon(f) {
			ssau.Instrs(g, func(in ssa.Instruction) {
				iff, ok := in.(*ssa.If)
				if !ok {
					return
				}
				n++
				var reads func(v ssa.Value, depth int) bool
				reads = func(v ssa.Value, depth int) bool {
					if depth > 4 {
						return false
					}
					if _, is := isFieldLoad(v, "core", "Walked", "StoppedBecause"); is {
						return true
					}
					switch x := v.(type) {
					case *ssa.BinOp:
						return reads(x.X, depth+1) || reads(x.Y, depth+1)
					case *ssa.UnOp:
						return reads(x.X, depth+1)
					case *ssa.Phi:
						for _, e := range x.Edges {
							if reads(e, depth+1) {
								return true
							}
						}
					}
					return false
				}
				if reads(iff.Cond, 0) {
					bad = fname(g) + " (" + c.pos(iff) + ")"
				}
			})
		}
	}
	c.R.Check(bad == "", rule, "hosts: no decision depends on why a walk stopped", "sio/crew.go", fmt.Sprintf("%d branch conditions in the hosts examined, none reads Walked.StoppedBecause", n), "a host decides on Walked.StoppedBecause in "+bad+": a walk that stopped at the limit (or a breakpoint) is then installed, stored or reported differently, and the machine's next step does not start from the state its previous step produced")
}

// c09CrewKeepsOnlyReportedState: C09-R11 / C15.  Between messages the single-loop crew keeps, per machine, only what it
// reports: the machine's state (and spec), the pending change records and the duplicate-suppression records.  E1 from
// Crew.RunMachine with the crew protected: every write that can reach the crew goes to one of those places.  A side
// table (held messages, counters, caches of intermediate results) is state of a machine that no store ever sees.
func c09CrewKeepsOnlyReportedState(c *Ctx, rule string) {
	rm := c.P.Func("sio", "Crew", "RunMachine")
	if rm == nil || len(rm.Params) < 4 {
		c.R.Break(rule + ": sio.(*Crew).RunMachine not found")
		return
	}
	roots := map[int]pta.RootSpec{0: {Name: "crew", Levels: 3}}
	a := pta.New(pta.Config{Prog: c.P, EnginePkgs: map[string]bool{"sio": true, "crew": true}, Entries: []*ssa.Function{rm}, Roots: map[*ssa.Function]map[int]pta.RootSpec{rm: roots}, External: stdExternal})
	a.Run()
	c.noteAnalysis(a)
	allowed := func(t string) bool {
		for _, p := range []string{"root:crew.changed", "root:crew.Machines", "root:crew.previous", "root:crew.timers", "root:crew.Mutex", "root:crew.RWMutex"} {
			if strings.HasPrefix(t, p) {
				return true
			}
		}
		return false
	}
	n, total := 0, 0
	for _, e := range a.Effects() {
		if !strings.HasPrefix(e.Target.Name, "root:crew") {
			continue
		}
		total++
		if allowed(e.Target.Name) {
			continue
		}
		n++
		c.R.Violate(rule, fmt.Sprintf("%s|writes %s", e.Key, e.Target.Name), c.pos(e.Site.Instr), fmt.Sprintf("%s in %s writes %s: the crew keeps something about a machine outside its reported state (path: %s); a crew rebuilt from what was reported lacks it and continues differently", e.Site.Kind, fname(e.Site.Fn), e.Target.Name, strings.Join(e.Origin, " -> ")))
	}
	if os.Getenv("VERIF_DEBUG") != "" {
		for _, e := range a.Effects() {
			fmt.Fprintf(os.Stderr, "RunMachine effect: %s %s\n", e.Key, e.Target.Name)
		}
	}
	if n == 0 {
		c.R.Discharge(rule, "RunMachine: the crew keeps only what it reports", c.P.Pos(rm.Pos()), fmt.Sprintf("%d writes into the crew, all to the machines' states, the change records or the timers", total))
	}
}

// c19EveryLineMatched: C19-R9.  "No forbidden pattern was matched" is only as good as the set of lines that were
// compared: in the loop that reads the subprocess's output every line that was read and decoded reaches the loop over
// the step's outputs.  A way back to the head of the read loop that by-passes the matching is allowed only under a
// failed read or a failed decode (an `err != nil` edge).
func c19EveryLineMatched(c *Ctx, rule string, run *ssa.Function) {
	var fns []*ssa.Function
	seen := map[*ssa.Function]bool{}
	for _, f := range append(ssau.WithAnon(run), pkgClosure(run)...) {
		if prog.PkgOf(f) == "tools/expect" && f.Blocks != nil && !seen[f] {
			seen[f] = true
			fns = append(fns, f)
			for _, g := range ssau.WithAnon(f) {
				if !seen[g] {
					seen[g] = true
					fns = append(fns, g)
				}
			}
		}
	}
	n := 0
	for _, f := range fns {
		loops := flow.Loops(f)
		ssau.Instrs(f, func(in ssa.Instruction) {
			cl, ok := in.(*ssa.Call)
			if !ok {
				return
			}
			name := ssau.CalleeName(cl)
			if !(strings.HasPrefix(name, "(*bufio.Reader).Read") || name == "(*bufio.Scanner).Scan") {
				return
			}
			L := flow.InnermostLoop(loops, cl.Block())
			if L == nil {
				return
			}
			// the matching: a loop nested in L (or a call made in L) that ranges over an OutputSet
			matching := map[*ssa.BasicBlock]bool{}
			isOutputs := func(v ssa.Value) bool {
				for _, d := range resolveThroughLocals(v, fns) {
					if ld, isLd := d.(*ssa.UnOp); isLd {
						if _, fld, _, isF := ssau.FieldOf(ld.X); isF && fld == "OutputSet" {
							return true
						}
					}
				}
				return false
			}
			for _, m := range loops {
				if m == L || !L.Blocks[m.Header] {
					continue
				}
				if op := loopOperand(m); op != nil && isOutputs(op) {
					matching[m.Header] = true
				}
			}
			for b := range L.Blocks {
				for _, in2 := range b.Instrs {
					c2, isC := in2.(*ssa.Call)
					if !isC {
						continue
					}
					h := c2.Common().StaticCallee()
					if h == nil || h.Blocks == nil || prog.PkgOf(h) != "tools/expect" {
						continue
					}
					for _, m := range flow.Loops(h) {
						if op := loopOperand(m); op != nil && isOutputs(op) {
							matching[b] = true
						}
					}
				}
			}
			if len(matching) == 0 {
				return
			}
			n++
			var bad []string
			for _, latch := range L.Latch {
				if matching[latch] || !flow.Reachable(cl.Block(), latch, matching) {
					continue
				}
				// by-passes the matching: only after a failed read or decode
				excused := false
				for _, ft := range flow.Expand(append(flow.FactsAt(latch), flow.EdgeFacts(latch, L.Header)...)) {
					if bo, isB := ft.Cond.(*ssa.BinOp); isB && ssau.IsNilConst(bo.Y) && bo.X.Type().String() == "error" && ((bo.Op.String() == "!=" && ft.True) || (bo.Op.String() == "==" && !ft.True)) {
						excused = true
					}
				}
				if !excused {
					bad = append(bad, c.pos(latch.Instrs[len(latch.Instrs)-1]))
				}
			}
			c.R.Check(len(bad) == 0, rule, fmt.Sprintf("%s: every line read #%d is compared with the step's outputs", fname(f), n), c.pos(cl), "the only ways round the matching are failed reads and failed decodes", "a line that was read goes back to the head of the read loop without having been compared with the step's patterns (at "+strings.Join(bad, ", ")+"): a forbidden message among such lines is never noticed and the session passes")
		})
	}
	if n == 0 {
		c.R.Break(rule + ": no loop that reads the subprocess's output and matches it against the step's outputs found")
	}
}

// c14BroadcastDecision: C14-R1.  A message is broadcast because it names no recipients at all (no "to", or "*"), never
// because the list it names turned out to be empty: no call of the broadcast list (allMachines) on the routing path is
// decided by the length of anything.
// c17DueTimeKeepsItsFraction: C17-R3.  A persisted due time is written with its fraction of a second: a due time
// formatted with a layout that has no fractional seconds comes back up to a second early after a restart.
func c14BroadcastDecision(c *Ctx, rule string) {
	all := c.P.Func("sio", "Crew", "allMachines")
	to := c.P.Func("sio", "Crew", "toMachines")
	if all == nil || to == nil {
		c.R.Break(rule + ": sio allMachines / toMachines not found")
		return
	}
	n := 0
	for _, f := range append([]*ssa.Function{to}, pkgClosure(to)...) {
		if prog.PkgOf(f) != "sio" {
			continue
		}
		ssau.Instrs(f, func(in ssa.Instruction) {
			cl, ok := in.(*ssa.Call)
			if !ok || cl.Common().StaticCallee() != all {
				return
			}
			n++
			bad := ""
			var lens func(v ssa.Value, depth int) bool
			lens = func(v ssa.Value, depth int) bool {
				if depth > 4 {
					return false
				}
				switch x := v.(type) {
				case *ssa.BinOp:
					return lens(x.X, depth+1) || lens(x.Y, depth+1)
				case *ssa.UnOp:
					return lens(x.X, depth+1)
				case *ssa.Call:
					if bi, isB := x.Common().Value.(*ssa.Builtin); isB && bi.Name() == "len" {
						return true
					}
				}
				return false
			}
			edges := [][]flow.Fact{flow.FactsAt(cl.Block())}
			for _, p := range cl.Block().Preds {
				edges = append(edges, append(append([]flow.Fact{}, flow.FactsAt(p)...), flow.EdgeFacts(p, cl.Block())...))
			}
			for _, fs := range edges {
				for _, ft := range flow.Expand(fs) {
					if lens(ft.Cond, 0) {
						bad = c.pos(ft.If)
					}
				}
			}
			c.R.Check(bad == "", rule, fmt.Sprintf("%s: broadcast #%d is not decided by an empty list of recipients", fname(f), n), c.pos(cl), "no length test on the way to allMachines", "whether a message is broadcast depends on a length ("+bad+"): a message addressed to an empty list of recipients (nobody) is shown to every machine")
		})
	}
	if n == 0 {
		c.R.Break(rule + ": toMachines never calls allMachines")
	}
}

func c17DueTimeKeepsItsFraction(c *Ctx, rule string) {
	n := 0
	bad := ""
	for _, f := range c.P.FuncsIn("sio", "cmd/mcrew") {
		for _, g := range ssau.WithAnon(f) {
			ssau.Instrs(g, func(in ssa.Instruction) {
				cl, ok := in.(*ssa.Call)
				if !ok {
					return
				}
				name := ssau.CalleeName(cl)
				if name != "(time.Time).Format" && name != "(time.Time).AppendFormat" {
					return
				}
				// the receiver derives from a timer entry's due time
				isAt := false
				for _, d := range deepDefs(cl.Common().Args[0], []*ssa.Function{g}) {
					v := d
					for k := 0; k < 4; k++ {
						if c2, isC := v.(*ssa.Call); isC && len(c2.Common().Args) > 0 && strings.HasPrefix(ssau.CalleeName(c2), "(time.Time).") {
							v = c2.Common().Args[0]
						}
					}
					if ld, isLd := v.(*ssa.UnOp); isLd {
						if nm, fld, _, isF := ssau.FieldOf(ld.X); isF && nm != nil && nm.Obj().Name() == "TimerEntry" && fld == "At" {
							isAt = true
						}
					}
				}
				if !isAt {
					return
				}
				n++
				layout := cl.Common().Args[len(cl.Common().Args)-1]
				if s, isS := ssau.ConstString(layout); isS && !strings.Contains(s, ".9") && !strings.Contains(s, ".0") && !strings.Contains(s, ",9") && !strings.Contains(s, ",0") {
					bad = fmt.Sprintf("%q at %s", s, c.pos(cl))
				}
			})
		}
	}
	c.R.Check(bad == "", rule, "timers: a due time is never written without its fraction of a second", "sio/timers.go", fmt.Sprintf("%d explicit formattings of TimerEntry.At, none with a layout that drops the fraction (the default JSON form of time.Time keeps nanoseconds)", n), "a timer entry's due time is formatted with the layout "+bad+", which has no fractional seconds: the time read back after a restart is up to a second earlier, and the resumed timer fires early")
}

// c19SessionFiles: C19-R10.  The repository's own session files (specs/tests/*.yaml) are read by the YAML decoder, which
// silently ignores a key it does not know.  Every key in those files that is a (Go, JSON or YAML) name of a field of
// Session, IO or Output is a name the YAML decoder knows for that field's struct: otherwise the file's guard, timeout or
// forbidden flag is dropped without a word and the session passes for want of a condition.  (Static: tags from go/types,
// keys from the files' text; nothing is decoded or run.)
func c19SessionFiles(c *Ctx, rule string) {
	pkg := c.P.ByPath[prog.Abs("tools/expect")]
	if pkg == nil {
		c.R.Break(rule + ": package tools/expect not loaded")
		return
	}
	yamlNames := map[string]bool{}
	otherNames := map[string]string{} // lower-cased Go / JSON name -> Type.Field
	for _, tn := range []string{"Session", "IO", "Output"} {
		obj := pkg.Types.Scope().Lookup(tn)
		if obj == nil {
			continue
		}
		st, ok := obj.Type().Underlying().(*types.Struct)
		if !ok {
			continue
		}
		for i := 0; i < st.NumFields(); i++ {
			f := st.Field(i)
			tag := reflect.StructTag(st.Tag(i))
			y := strings.Split(tag.Get("yaml"), ",")[0]
			j := strings.Split(tag.Get("json"), ",")[0]
			if y == "-" {
				continue
			}
			if y == "" {
				y = strings.ToLower(f.Name())
			}
			yamlNames[y] = true
			otherNames[strings.ToLower(f.Name())] = tn + "." + f.Name()
			if j != "" && j != "-" {
				otherNames[strings.ToLower(j)] = tn + "." + f.Name()
			}
		}
	}
	if len(yamlNames) == 0 {
		c.R.Break(rule + ": no fields of tools/expect Session/IO/Output found")
		return
	}
	files, _ := filepath.Glob(filepath.Join(c.P.Dir, "specs", "tests", "*.yaml"))
	sort.Strings(files)
	keyRe := regexp.MustCompile(`^\s*(?:-\s+)?([A-Za-z][A-Za-z0-9_]*):(?:\s|$)`)
	nkeys := 0
	var bad []string
	for _, fn := range files {
		bs, err := os.ReadFile(fn)
		if err != nil {
			continue
		}
		for ln, line := range strings.Split(string(bs), "\n") {
			m := keyRe.FindStringSubmatch(line)
			if m == nil {
				continue
			}
			k := m[1]
			field, isField := otherNames[strings.ToLower(k)]
			if !isField && !yamlNames[k] {
				continue // a key of a message, a pattern or a source
			}
			nkeys++
			if !yamlNames[k] {
				bad = append(bad, fmt.Sprintf("%s:%d uses %q for %s, which the YAML decoder does not know", strings.TrimPrefix(fn, c.P.Dir+"/"), ln+1, k, field))
			}
		}
	}
	if len(files) == 0 {
		c.R.Discharge(rule, "session files: every field key is known to the YAML decoder", "specs/tests", "no session files in the repository")
		return
	}
	c.R.Check(len(bad) == 0, rule, "session files: every field key is known to the YAML decoder", "specs/tests", fmt.Sprintf("%d keys in %d files name fields of Session/IO/Output, all by their YAML names", nkeys, len(files)), strings.Join(bad, "; ")+": the decoder ignores the key, so the condition it states (a guard, a timeout, a forbidden output) is not part of the session and the session passes without it")
}

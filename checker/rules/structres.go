package rules

import (
	"go/token"
	"go/types"

	"golang.org/x/tools/go/ssa"

	"sheensverif/internal/ssau"
)

// This file makes "the i-th result of a function" indifferent to whether the function returns a tuple or ONE struct
// that bundles the same values (`func try(...) (*State, *Traces, error)` against `func try(...) tried` with
// `type tried struct{to *State; traces *Traces; err error}`).  The logical results of a struct-returning function are
// the fields of the struct, in declaration order.

// resultStruct: the struct type that fn returns as its only result (nil otherwise: a tuple, a pointer, an interface).
func resultStruct(sig *types.Signature) *types.Struct {
	if sig == nil || sig.Results().Len() != 1 {
		return nil
	}
	t := sig.Results().At(0).Type()
	if _, named := t.(*types.Named); !named {
		return nil
	}
	st, _ := t.Underlying().(*types.Struct)
	return st
}

// logicalResultTypes lists the types of the logical results of a function with the signature sig.
func logicalResultTypes(sig *types.Signature) []types.Type {
	var out []types.Type
	if st := resultStruct(sig); st != nil {
		for i := 0; i < st.NumFields(); i++ {
			out = append(out, st.Field(i).Type())
		}
		return out
	}
	for i := 0; i < sig.Results().Len(); i++ {
		out = append(out, sig.Results().At(i).Type())
	}
	return out
}

// logicalResultIdx: the index of the only logical result of sig whose type satisfies pred (-1: none or several).
func logicalResultIdx(sig *types.Signature, pred func(types.Type) bool) int {
	idx := -1
	for i, t := range logicalResultTypes(sig) {
		if pred(t) {
			if idx >= 0 {
				return -1
			}
			idx = i
		}
	}
	return idx
}

func isErrorType(t types.Type) bool {
	return types.Identical(t, types.Universe.Lookup("error").Type())
}

func isBoolType(t types.Type) bool {
	b, ok := t.Underlying().(*types.Basic)
	return ok && b.Kind() == types.Bool
}

// logicalResults lists what a return hands back, one value per logical result.  For a function that returns one struct
// the struct must be a composite literal built for this return (a local allocation whose fields are each written at
// most once, in the block of the return, and that is read as a whole by the return only): a field that is not written
// is the zero constant of its type.  Anything else (the struct comes from a variable, a call, a phi) yields nil.
func logicalResults(ret *ssa.Return) []ssa.Value {
	fn := ret.Parent()
	st := resultStruct(fn.Signature)
	if st == nil {
		return ret.Results
	}
	if len(ret.Results) != 1 {
		return nil
	}
	ld, ok := ret.Results[0].(*ssa.UnOp)
	if !ok || ld.Op != token.MUL {
		return nil
	}
	al, ok := ld.X.(*ssa.Alloc)
	if !ok || al.Parent() != fn {
		return nil
	}
	out := make([]ssa.Value, st.NumFields())
	for _, r := range ssau.Referrers(al) {
		switch x := r.(type) {
		case *ssa.UnOp:
			if x != ld {
				return nil
			}
		case *ssa.FieldAddr:
			for _, r2 := range ssau.Referrers(x) {
				switch y := r2.(type) {
				case *ssa.Store:
					if y.Addr != ssa.Value(x) || y.Block() != ret.Block() || out[x.Field] != nil {
						return nil
					}
					out[x.Field] = y.Val
				case *ssa.DebugRef:
				default:
					return nil
				}
			}
		case *ssa.DebugRef:
		default:
			return nil
		}
	}
	for i := range out {
		if out[i] == nil {
			out[i] = zeroConst(st.Field(i).Type())
		}
	}
	return out
}

// callResultParts lists the values in the caller that ARE the i-th logical result of the call cl: the extracts of a
// tuple, the call itself for a single plain result, and for a struct result the reads of field i — of the call's
// value directly, or of the local variable that the result is stored into as a whole, provided that variable is
// written by nothing else and its address goes nowhere (`r := br.try(...)` ... `r.err`).
func callResultParts(cl *ssa.Call, i int) []ssa.Value {
	sig := cl.Common().Signature()
	st := resultStruct(sig)
	var out []ssa.Value
	if st == nil {
		if sig.Results().Len() == 1 {
			if i == 0 {
				return []ssa.Value{cl}
			}
			return nil
		}
		for _, r := range ssau.Referrers(cl) {
			if ex, ok := r.(*ssa.Extract); ok && ex.Index == i {
				out = append(out, ex)
			}
		}
		return out
	}
	for _, r := range ssau.Referrers(cl) {
		switch x := r.(type) {
		case *ssa.Field:
			if x.X == ssa.Value(cl) && x.Field == i {
				out = append(out, x)
			}
		case *ssa.Store:
			al, isAl := x.Addr.(*ssa.Alloc)
			if !isAl || x.Val != ssa.Value(cl) {
				continue
			}
			var reads []ssa.Value
			private := true
			for _, r2 := range ssau.Referrers(al) {
				switch y := r2.(type) {
				case *ssa.Store:
					if y != x {
						private = false
					}
				case *ssa.FieldAddr:
					for _, r3 := range ssau.Referrers(y) {
						switch z := r3.(type) {
						case *ssa.UnOp:
							if z.Op != token.MUL {
								private = false
							} else if y.Field == i && instrBefore(x, z) {
								reads = append(reads, z)
							}
						case *ssa.DebugRef:
						default:
							private = false
						}
					}
				case *ssa.UnOp:
					if y.Op != token.MUL {
						private = false
					}
				case *ssa.DebugRef:
				default:
					private = false
				}
			}
			if private {
				out = append(out, reads...)
			}
		}
	}
	return out
}

// isCallResultPart reports whether v is the i-th logical result of cl.
func isCallResultPart(v ssa.Value, cl *ssa.Call, i int) bool {
	if i < 0 || v == nil {
		return false
	}
	for _, p := range callResultParts(cl, i) {
		if p == v {
			return true
		}
	}
	return false
}

// instrBefore: whenever b executes, a has executed before it in the same activation (a dominates b).
func instrBefore(a, b ssa.Instruction) bool {
	if a.Block() != b.Block() {
		return a.Block().Dominates(b.Block())
	}
	for _, in := range a.Block().Instrs {
		if in == a {
			return true
		}
		if in == b {
			return false
		}
	}
	return false
}

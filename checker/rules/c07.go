package rules

import (
	"fmt"
	"go/constant"
	"go/token"
	"go/types"
	"sort"
	"strings"

	"golang.org/x/tools/go/ssa"

	"sheensverif/internal/flow"
	"sheensverif/internal/nilc"
	"sheensverif/internal/prog"
	"sheensverif/internal/pta"
	"sheensverif/internal/ssau"
)

func init() { Registry["C07"] = C07 }

var totalityPkgs = []string{"core", "match", "interpreters/ecmascript", "interpreters/noop"}

var closureSet map[*ssa.Function]bool

// processingClosure: functions of the engine packages reachable (VTA call
// graph, function literals included) from loading, compiling and processing.
func (c *Ctx) processingClosure() []*ssa.Function {
	in := map[string]bool{}
	for _, p := range totalityPkgs {
		in[p] = true
	}
	var entries []*ssa.Function
	for _, e := range [][3]string{{"core", "Spec", "Compile"}, {"core", "Spec", "ParsePatterns"}, {"core", "Spec", "Step"}, {"core", "Spec", "Walk"},
		{"core", "FuncAction", "Exec"}, {"core", "ActionSource", "Compile"}, {"interpreters/ecmascript", "Interpreter", "Exec"}, {"interpreters/ecmascript", "Interpreter", "Compile"},
		{"interpreters/noop", "Interpreter", "Exec"}, {"interpreters/noop", "Interpreter", "Compile"}} {
		if f := c.fn(e[0], e[1], e[2]); f != nil {
			entries = append(entries, f)
		}
	}
	seen := map[*ssa.Function]bool{}
	var out []*ssa.Function
	var visit func(f *ssa.Function)
	visit = func(f *ssa.Function) {
		if f == nil || seen[f] || f.Blocks == nil || !in[prog.PkgOf(f)] {
			return
		}
		seen[f] = true
		out = append(out, f)
		for _, an := range f.AnonFuncs {
			visit(an)
		}
		ssau.Instrs(f, func(ins ssa.Instruction) {
			if ci, ok := ins.(ssa.CallInstruction); ok {
				for _, callee := range c.P.Callees(ci) {
					visit(callee)
				}
			}
		})
	}
	for _, e := range entries {
		visit(e)
	}
	sort.Slice(out, func(i, j int) bool { return fname(out[i]) < fname(out[j]) })
	return out
}

// reportNil turns nil-contract results into obligations.
func (c *Ctx) reportNil(rule string, res *nilc.Result) {
	idx := map[string]int{}
	for _, f := range res.Findings {
		base := fmt.Sprintf("%s|%s in %s", f.Src.Label, f.Kind, fname(f.Instr.Parent()))
		idx[base]++
		c.R.Violate(rule, fmt.Sprintf("%s#%d", base, idx[base]), c.pos(f.Instr),
			fmt.Sprintf("%s: %s may be nil here (%s); flow: %s", f.Kind, f.Holder.Name(), f.Src.Why, strings.Join(f.Chain, " -> ")))
	}
	for _, g := range res.Guarded {
		base := fmt.Sprintf("%s|%s in %s", g.Src.Label, g.Kind, fname(g.Instr.Parent()))
		idx[base]++
		c.R.Discharge(rule, fmt.Sprintf("%s#%d", base, idx[base]), c.pos(g.Instr), "guarded by "+g.By)
	}
}

// assertKey identifies a type test by operand and type.
type assertKey struct {
	x ssa.Value
	t string
}

// assertFacts lists the comma-ok type tests known to have succeeded / failed at b.
func assertFacts(b *ssa.BasicBlock) (pos, neg map[assertKey]bool) {
	pos, neg = map[assertKey]bool{}, map[assertKey]bool{}
	for _, f := range flow.FactsAt(b) {
		ex, ok := f.Cond.(*ssa.Extract)
		if !ok || ex.Index != 1 {
			continue
		}
		ta, ok := ex.Tuple.(*ssa.TypeAssert)
		if !ok || !ta.CommaOk {
			continue
		}
		k := assertKey{ta.X, ta.AssertedType.String()}
		if f.True {
			pos[k] = true
		} else {
			neg[k] = true
		}
	}
	return
}

func infeasible(b *ssa.BasicBlock) bool {
	pos, neg := assertFacts(b)
	for k := range pos {
		if neg[k] {
			return true
		}
	}
	return false
}

// guardedByAll: every way into block b carries a fact accepted by ok (looking
// back through unconditional jumps).
func guardedByAll(b *ssa.BasicBlock, ok func(f flow.Fact) bool, depth int) bool {
	for _, f := range flow.FactsAt(b) {
		if ok(f) {
			return true
		}
	}
	if depth > 6 || len(b.Preds) == 0 {
		return false
	}
	for _, p := range b.Preds {
		good := false
		for _, f := range flow.EdgeFacts(p, b) {
			if ok(f) {
				good = true
			}
		}
		if !good && len(p.Succs) == 1 {
			good = guardedByAll(p, ok, depth+1)
		}
		if !good {
			return false
		}
	}
	return true
}

// hashableTest: the facts that establish that key holds a string, number, bool or nil: a successful type test of
// it, a comparison with nil, or a boolean helper that answers true only under such a test of its argument.
func hashableTest(key ssa.Value, depth int) func(f flow.Fact) bool {
	return func(f flow.Fact) bool {
		if !f.True {
			return false
		}
		if ex, isEx := f.Cond.(*ssa.Extract); isEx && ex.Index == 1 {
			if ta, isTA := ex.Tuple.(*ssa.TypeAssert); isTA && ta.CommaOk && ta.X == key && hashableBasic(ta.AssertedType) {
				return true
			}
		}
		if bo, isB := f.Cond.(*ssa.BinOp); isB && bo.Op == token.EQL && bo.X == key && ssau.IsNilConst(bo.Y) {
			return true
		}
		if cl, isC := f.Cond.(*ssa.Call); isC && depth < 3 {
			h := cl.Common().StaticCallee()
			if h == nil || h.Blocks == nil || h.Signature.Results().Len() != 1 {
				return false
			}
			for i, a := range cl.Common().Args {
				if a != key || i >= len(h.Params) {
					continue
				}
				test := hashableTest(h.Params[i], depth+1)
				if trueImplies(h, 0, func(b *ssa.BasicBlock, extra []flow.Fact) bool {
					for _, e := range extra {
						if test(e) {
							return true
						}
					}
					return guardedByAll(b, test, 0)
				}) {
					return true
				}
			}
		}
		return false
	}
}

func hashableBasic(t types.Type) bool {
	switch u := t.Underlying().(type) {
	case *types.Basic:
		return u.Kind() != types.UnsafePointer
	}
	return false
}

func C07(c *Ctx) {
	c.R.Explanation = "Decides structural necessary conditions of 'processing never crashes the host' over core, match and the interpreters: (R1) a frozen table of values the API contract allows to be nil (no Control; absent bindings; the Execution returned with an error; null bindings; null nodes/branches while loading; absent action/guard source for native actions; absent branching; the optional control settings of a sio crew) — every dereferencing use reachable through copies, phis, variables and static calls is dominated by a nil test of that value / field path or by the err==nil edge of the producing call; (R2) every comma-less type assertion is dominated by a successful test of the same value and type (infeasible blocks pruned); (R3) make sizes that are not constants or lengths are bounded below; (R4) the goja program runs only under a deferred recover, explicit panics reachable from Exec lie in functions that are only called from the script runtime, every other call from host-side interpreter code into goja (exporting a value runs getters) is dominated by a deferred recover, and no error return of Exec carries the error value a goja Run* call produced (its text runs the thrown object's toString); (R5) no error result is dropped in core/match/ecmascript except the enumerated infallible calls, and Walk turns a Step error into the error-node transition; (R6) values used as keys of interface-keyed maps are guarded by a test for a hashable type; (R7) recursive engine functions are never applied to values that come straight from the script runtime (which may be cyclic), and such a value is handed to fmt/log only under %T; (R8) the processing functions dereference nodes and branches of a compiled spec without a test, so Compile must establish that there are none: from the nil edge of every node value and branch element Compile visits, the store that marks the spec compiled is unreachable unless the null was first replaced by a fresh value in the spec itself, and Compile visits the branches of every node. Panics inside goja/std, stack exhaustion on deep JSON and index bounds are not decided."
	c.R.Rule("C07-R1", "E2", "nil contract", 12)
	c.R.Rule("C07-R2", "E2", "type assertions are checked", 3)
	c.R.Rule("C07-R3", "E2", "allocation sizes bounded below", 1)
	c.R.Rule("C07-R4", "E3+E7", "script panics are contained", 2)
	c.R.Rule("C07-R5", "E6", "errors are not dropped; Walk routes Step errors to the error node", 10)
	c.R.Rule("C07-R6", "E2", "interface-keyed maps get hashable keys only", 2)
	c.R.Rule("C07-R7", "E1", "recursive functions see only canonicalised (acyclic) values", 1)
	c.R.Rule("C07-R8", "E3", "Compile establishes what processing assumes: a compiled spec has no null node and no null branch", 2)
	c.R.Rule("C07-R9", "E3", "the matcher's recursion consumes the message: a bound variable string is not expanded again", 1)
	c07Termination(c)
	c.shareRule("C05", "C05-R1", "C07-R14", "Walk returns: its loop is a counted loop against the control's Limit, whatever the Limit is")
	c.shareRule("C04", "C04-R17", "C07-R12", "a failing guard is surfaced: its error is handed on up to Step")
	c.shareRule("C08", "C08-R9", "C07-R13", "a result that is not bindings is an error")
	c.R.Rule("C07-R11", "E3+E5", "Walk's error transition: exempt only at node error; built from the state the failing step started from", 2)
	c.R.Rule("C07-R10", "E3+E6", "loading any document yields a specification or an error", 3)
	c07Loader(c)

	coreFns := c.P.FuncsIn("core")
	fns := c.processingClosure()
	closureSet = map[*ssa.Function]bool{}
	for _, f := range fns {
		c.R.Fn(fname(f))
		closureSet[f] = true
	}
	step := c.fn("core", "Spec", "Step")
	walk := c.fn("core", "Spec", "Walk")
	compile := c.fn("core", "Spec", "Compile")
	parse := c.fn("core", "Spec", "ParsePatterns")
	if step == nil || walk == nil || compile == nil || parse == nil {
		return
	}
	// ------------------------------------------------------------------ R1
	var srcs []nilc.Source
	for _, f := range []*ssa.Function{step, walk} {
		found := false
		for _, p := range f.Params {
			if ssau.TypeIs(p.Type(), prog.Abs("core"), "Control") {
				srcs = append(srcs, nilc.Source{V: p, Why: "no control settings are supplied", Label: "Control of " + f.Name()})
				found = true
			}
		}
		if !found {
			c.R.Break("C07-R1: %s has no *Control parameter", fname(f))
		}
	}
	for i, v := range nilc.FieldLoads([]*ssa.Function{step, walk}, prog.Abs("core"), "State", "Bs") {
		srcs = append(srcs, nilc.Source{V: v, Why: "a state with absent bindings", WritesOnly: true, Label: fmt.Sprintf("State.Bs load#%d in %s", i+1, v.(ssa.Instruction).Parent().Name())})
	}
	// executions returned by actions / guards / interpreters
	nexe := 0
	for _, f := range coreFns {
		ssau.Instrs(f, func(in ssa.Instruction) {
			cl, ok := in.(*ssa.Call)
			if !ok {
				return
			}
			tup, isTup := cl.Type().(*types.Tuple)
			if !isTup || tup.Len() != 2 || !ssau.TypeIs(tup.At(0).Type(), prog.Abs("core"), "Execution") {
				return
			}
			if cl.Common().StaticCallee() != nil && cl.Common().StaticCallee().Name() != "Exec" {
				return
			}
			if ex := callResults(cl)[0]; ex != nil {
				nexe++
				srcs = append(srcs, nilc.Source{V: ex, Why: "an action or guard may return no Execution together with an error", Label: fmt.Sprintf("Execution from %s in %s", pta.DescribeCall(cl), fname(f))})
			}
		})
	}
	if nexe < 3 {
		c.R.Break("C07-R1: expected at least 3 execution-producing calls in core, found %d", nexe)
	}
	for i, v := range nilc.FieldLoads(coreFns, prog.Abs("core"), "Execution", "Bs") {
		srcs = append(srcs, nilc.Source{V: v, Why: "an action or guard may return null bindings", WritesOnly: true, Label: fmt.Sprintf("Execution.Bs load#%d in %s", i+1, fname(v.(ssa.Instruction).Parent()))})
	}
	for _, fld := range []struct{ typ, field, why string }{
		{"Node", "ActionSource", "a native action has no source"},
		{"Branch", "GuardSource", "a native guard has no source"},
		{"Spec", "BootSource", "optional boot source"},
		{"Spec", "ToobSource", "optional toob source"},
		{"Node", "Branches", "a node may have no branching"},
	} {
		for i, v := range nilc.FieldLoads(coreFns, prog.Abs("core"), fld.typ, fld.field) {
			srcs = append(srcs, nilc.Source{V: v, Why: fld.why, Label: fmt.Sprintf("%s.%s load#%d in %s", fld.typ, fld.field, i+1, fname(v.(ssa.Instruction).Parent()))})
		}
	}
	// null nodes / branches while loading
	nload := 0
	loaders := map[*ssa.Function]bool{}
	var loaderList []*ssa.Function
	for _, f0 := range []*ssa.Function{compile, parse} {
		for _, f := range pkgClosure(f0) {
			if !loaders[f] && f != c.P.Func("core", "Spec", "Step") {
				loaders[f] = true
				loaderList = append(loaderList, f)
			}
		}
	}
	for _, f := range loaderList {
		ssau.Instrs(f, func(in ssa.Instruction) {
			switch x := in.(type) {
			case *ssa.Extract:
				if nx, ok := x.Tuple.(*ssa.Next); ok && x.Index == 2 {
					if rg, ok := nx.Iter.(*ssa.Range); ok {
						if _, is := isFieldLoad(rg.X, "core", "Spec", "Nodes"); is {
							nload++
							srcs = append(srcs, nilc.Source{V: x, Why: "a document may contain a null node", Label: fmt.Sprintf("node value in %s #%d", f.Name(), nload)})
						}
					}
				}
			case *ssa.UnOp:
				if ia, ok := x.X.(*ssa.IndexAddr); ok && x.Op == token.MUL {
					if _, is := isFieldLoad(ia.X, "core", "Branches", "Branches"); is {
						nload++
						srcs = append(srcs, nilc.Source{V: x, Why: "a document may contain a null branch", Label: fmt.Sprintf("branch element in %s #%d", f.Name(), nload)})
					}
				}
			}
		})
	}
	if nload < 4 {
		c.R.Break("C07-R1: expected node/branch element loads in Compile and ParsePatterns, found %d", nload)
	}
	// the single-loop host: a crew may be configured without control settings (Walk substitutes the default)
	nctl := 0
	for i, v := range nilc.FieldLoads(c.P.FuncsIn("sio"), prog.Abs("sio"), "CrewConf", "Ctl") {
		nctl++
		srcs = append(srcs, nilc.Source{V: v, Why: "a crew may be configured without control settings", Label: fmt.Sprintf("CrewConf.Ctl load#%d in %s", i+1, fname(v.(ssa.Instruction).Parent()))})
	}
	if nctl == 0 {
		c.R.Break("C07-R1: no read of CrewConf.Ctl found in package sio")
	}
	// crew operations arrive as messages: a JSON null among the machines to update decodes to a nil pointer
	nop := 0
	for _, f := range c.P.FuncsIn("sio") {
		ssau.Instrs(f, func(in ssa.Instruction) {
			if x, ok := in.(*ssa.Extract); ok && x.Index == 2 {
				if nx, ok := x.Tuple.(*ssa.Next); ok {
					if rg, ok := nx.Iter.(*ssa.Range); ok {
						if _, is := isFieldLoad(rg.X, "sio", "CrewOp", "Update"); is {
							nop++
							srcs = append(srcs, nilc.Source{V: x, Why: "a crew operation may name a machine with a null description", Label: fmt.Sprintf("CrewOp.Update element in %s #%d", f.Name(), nop)})
						}
					}
				}
			}
		})
	}
	if nop == 0 {
		c.R.Break("C07-R1: no range over CrewOp.Update found in package sio")
	}
	// a machine that cannot be walked (no usable specification) yields no walk: the value half of every
	// (*core.Walked, error) result of a function of sio that can return nil there
	nwalk := 0
	for _, f := range c.P.FuncsIn("sio") {
		ssau.Instrs(f, func(in ssa.Instruction) {
			cl, ok := in.(*ssa.Call)
			if !ok {
				return
			}
			h := cl.Common().StaticCallee()
			if h == nil || h.Blocks == nil || prog.PkgOf(h) != "sio" || h.Signature.Results().Len() != 2 {
				return
			}
			if !ssau.TypeIs(h.Signature.Results().At(0).Type(), prog.Abs("core"), "Walked") || h.Signature.Results().At(1).Type().String() != "error" {
				return
			}
			canNil := false
			for _, b := range h.Blocks {
				if ret, isRet := b.Instrs[len(b.Instrs)-1].(*ssa.Return); isRet && len(ret.Results) == 2 && ssau.IsNilConst(ret.Results[0]) {
					canNil = true
				}
			}
			if !canNil {
				return
			}
			for _, r := range ssau.Referrers(cl) {
				if ex, isEx := r.(*ssa.Extract); isEx && ex.Index == 0 {
					nwalk++
					srcs = append(srcs, nilc.Source{V: ex, Why: "a machine without a usable specification is not walked", Label: fmt.Sprintf("walk from %s in %s #%d", h.Name(), fname(f), nwalk)})
				}
			}
		})
	}
	if nwalk == 0 {
		c.R.Break("C07-R1: no call in package sio of a function that answers (*core.Walked, error) and can answer nil")
	}
	res := nilc.Check(nilc.Config{Prog: c.P, Engine: map[string]bool{"core": true, "match": true, "sio": true}, PairRule: true}, srcs)
	c.reportNil("C07-R1", res)
	c.R.Extra["nullable_sources"] = len(srcs)
	// the multi-request host: a specification that could not be loaded is no specification.  The value half of every
	// (pointer or interface, error) result of a call made in cmd/mcrew is nullable; the err == nil edge of the call
	// vouches for it, a store into a cache does not, and a helper that hands it on with a nil error breaks the pair
	// contract its callers rely on.
	{
		var msrcs []nilc.Source
		nm := 0
		var procFns []*ssa.Function
		if proc := c.P.Func("cmd/mcrew", "Service", "Process"); proc != nil {
			procFns = append(procFns, proc)
			for _, h := range pkgClosure(proc) {
				if h != proc && prog.PkgOf(h) == "cmd/mcrew" {
					procFns = append(procFns, h)
				}
			}
		}
		for _, f := range procFns {
			for _, g := range ssau.WithAnon(f) {
				ssau.Instrs(g, func(in ssa.Instruction) {
					cl, ok := in.(*ssa.Call)
					if !ok {
						return
					}
					sig := cl.Common().Signature()
					if sig.Results().Len() != 2 || sig.Results().At(1).Type().String() != "error" {
						return
					}
					switch sig.Results().At(0).Type().Underlying().(type) {
					case *types.Pointer, *types.Interface:
					default:
						return
					}
					callees := c.P.Callees(cl)
					inRepo := false
					for _, h := range callees {
						if prog.PkgOf(h) == "" || h.Blocks == nil {
							continue
						}
						// ... that can answer nil there
						for _, hb := range h.Blocks {
							if ret, isRet := hb.Instrs[len(hb.Instrs)-1].(*ssa.Return); isRet && len(ret.Results) == 2 && ssau.IsNilConst(ret.Results[0]) {
								inRepo = true
							}
						}
					}
					if !inRepo {
						return
					}
					for _, r := range ssau.Referrers(cl) {
						if ex, isEx := r.(*ssa.Extract); isEx && ex.Index == 0 {
							nm++
							msrcs = append(msrcs, nilc.Source{V: ex, Why: "a call that fails answers no value", Label: fmt.Sprintf("value of %s in %s #%d", pta.DescribeCall(cl), fname(g), nm), PairContract: true})
						}
					}
				})
			}
		}
		if nm == 0 {
			c.R.Break("C07-R1: no (value, error) call that can answer nil found in the closure of cmd/mcrew Service.Process")
		}
		mres := nilc.Check(nilc.Config{Prog: c.P, Engine: map[string]bool{"cmd/mcrew": true}, PairRule: true}, msrcs)
		c.reportNil("C07-R1", mres)
		c.R.Extra["nullable_sources_mcrew"] = len(msrcs)
	}

	// writes into copies of absent bindings (Walk's and Step's error paths) rely on Copy never answering nil
	c.freshMapResult("C07-R1", "Bindings.Copy: never nil", c.P.Func("match", "Bindings", "Copy"), "Bindings.Copy can return nil: Step and Walk extend the copy of absent (nil) bindings on their error paths, and an assignment to an entry of a nil map panics")
	c.freshMapResult("C07-R1", "NewBindings: never nil", c.P.Func("match", "", "NewBindings"), "NewBindings can return nil")
	c07Invariant(c, compile)
	c07ExecContract(c)
	// ------------------------------------------------------------------ R2
	n2 := map[string]int{}
	nBare := 0
	nOk := map[*ssa.Function]int{}
	okPos := map[*ssa.Function]string{}
	var okFns []*ssa.Function
	for _, f := range fns {
		ssau.Instrs(f, func(in ssa.Instruction) {
			ta, ok := in.(*ssa.TypeAssert)
			if ok && ta.CommaOk {
				if nOk[f] == 0 {
					okFns = append(okFns, f)
					okPos[f] = c.pos(ta)
				}
				nOk[f]++
			}
			if !ok || ta.CommaOk {
				return
			}
			if _, isIface := ta.AssertedType.Underlying().(*types.Interface); isIface && false {
				return
			}
			nBare++
			base := fname(f) + ":" + types.TypeString(ta.AssertedType, func(p *types.Package) string { return p.Name() })
			n2[base]++
			key := fmt.Sprintf("%s#%d", base, n2[base])
			if infeasible(ta.Block()) {
				c.R.Discharge("C07-R2", key, c.pos(ta), "block is infeasible (contradictory type tests)")
				return
			}
			k := assertKey{ta.X, ta.AssertedType.String()}
			ok2 := guardedByAll(ta.Block(), func(f flow.Fact) bool {
				ex, isEx := f.Cond.(*ssa.Extract)
				if !isEx || ex.Index != 1 || !f.True {
					return false
				}
				t2, isTA := ex.Tuple.(*ssa.TypeAssert)
				return isTA && t2.CommaOk && (assertKey{t2.X, t2.AssertedType.String()}) == k
			}, 0)
			c.R.Check(ok2, "C07-R2", key, c.pos(ta), "dominated by a successful test of the same value and type", "unchecked type assertion: panics when the value has another type")
		})
	}
	// The rule is about every type assertion of the processing closure; one written in the two-result form is checked
	// by its form and is not listed.  When (almost) every assertion has that form there is little to list: the
	// assertions of the checked form are then recorded per function, so that "nothing to report" stays distinguishable
	// from "nothing was looked at" (the minimum instance count of the rule).
	if nBare < 3 {
		for _, f := range okFns {
			c.R.Discharge("C07-R2", fmt.Sprintf("%s: %d type assertions in the two-result form", fname(f), nOk[f]), okPos[f], "the two-result form of a type assertion does not panic")
		}
	}

	// ------------------------------------------------------------------ R3
	n3 := 0
	for _, f := range fns {
		ssau.Instrs(f, func(in ssa.Instruction) {
			ms, ok := in.(*ssa.MakeSlice)
			if !ok {
				return
			}
			for _, opnd := range []ssa.Value{ms.Len, ms.Cap} {
				if _, isC := ssau.ConstInt(opnd); isC {
					continue
				}
				n3++
				bad := nonNegative(opnd, ms.Block(), map[ssa.Value]bool{})
				c.R.Check(bad == "", "C07-R3", fmt.Sprintf("%s:make size #%d", fname(f), n3), c.pos(ms), "size is a length, a constant, or bounded below by a test", "make size may be negative (makeslice panics): "+bad)
			}
		})
	}

	// ------------------------------------------------------------------ R4
	c07Recover(c)
	// ------------------------------------------------------------------ R5
	c07Errors(c, walk, step)
	// ------------------------------------------------------------------ R6
	n6 := 0
	for _, f := range fns {
		ssau.Instrs(f, func(in ssa.Instruction) {
			var m, key ssa.Value
			switch x := in.(type) {
			case *ssa.MapUpdate:
				m, key = x.Map, x.Key
			case *ssa.Lookup:
				m, key = x.X, x.Index
			default:
				return
			}
			mt, ok := m.Type().Underlying().(*types.Map)
			if !ok {
				return
			}
			if _, isIface := mt.Key().Underlying().(*types.Interface); !isIface {
				return
			}
			n6++
			k := fmt.Sprintf("%s:interface key #%d", fname(f), n6)
			if mi, isMI := key.(*ssa.MakeInterface); isMI && hashableBasic(mi.X.Type()) {
				c.R.Discharge("C07-R6", k, c.pos(in), "key is boxed from a basic type")
				return
			}
			if _, isRange := key.(*ssa.Extract); isRange {
				if ex := key.(*ssa.Extract); ex.Index == 1 {
					if _, isNext := ex.Tuple.(*ssa.Next); isNext {
						c.R.Discharge("C07-R6", k, c.pos(in), "key comes from ranging over a map of the same key type")
						return
					}
				}
			}
			ok2 := guardedByAll(in.Block(), hashableTest(key, 0), 0)
			c.R.Check(ok2, "C07-R6", k, c.pos(in), "every way to this use passes a test that the key is a string, number, bool or nil", "a value of arbitrary dynamic type is used as a map key: an unhashable value (slice, map) panics at run time")
		})
	}

	// ------------------------------------------------------------------ R7
	c07Recursion(c)
}

// nonNegative returns "" if v is provably >= 0 at block b, else a description.
func nonNegative(v ssa.Value, b *ssa.BasicBlock, seen map[ssa.Value]bool) string {
	if seen[v] {
		return ""
	}
	seen[v] = true
	if n, ok := ssau.ConstInt(v); ok {
		if n >= 0 {
			return ""
		}
		return "negative constant"
	}
	lowerBound := func(facts []flow.Fact) bool {
		for _, f := range facts {
			bo, ok := f.Cond.(*ssa.BinOp)
			if !ok {
				continue
			}
			// v < c (c<=0) false ; c <= v true ; v >= c true ; c > v false
			if bo.X == v {
				if n, isC := ssau.ConstInt(bo.Y); isC {
					if (bo.Op == token.LSS && !f.True && n <= 0) || (bo.Op == token.GEQ && f.True && n >= 0) || (bo.Op == token.GTR && f.True && n >= -1) || (bo.Op == token.LEQ && !f.True && n >= -1) {
						return true
					}
				}
			}
			if bo.Y == v {
				if n, isC := ssau.ConstInt(bo.X); isC {
					if (bo.Op == token.LEQ && f.True && n >= 0) || (bo.Op == token.GTR && !f.True && n <= 0) || (bo.Op == token.LSS && f.True && n >= -1) || (bo.Op == token.GEQ && !f.True && n >= -1) {
						return true
					}
				}
			}
		}
		return false
	}
	if lowerBound(flow.FactsAt(b)) {
		return ""
	}
	switch x := v.(type) {
	case *ssa.Call:
		if bi, ok := x.Common().Value.(*ssa.Builtin); ok && (bi.Name() == "len" || bi.Name() == "cap") {
			return ""
		}
	case *ssa.Phi:
		for i, e := range x.Edges {
			pred := x.Block().Preds[i]
			if n, ok := ssau.ConstInt(e); ok && n >= 0 {
				continue
			}
			// fact on the edge about e
			facts := flow.EdgeFacts(pred, x.Block())
			okEdge := false
			for _, f := range facts {
				bo, isB := f.Cond.(*ssa.BinOp)
				if !isB {
					continue
				}
				if bo.X == e {
					if n, isC := ssau.ConstInt(bo.Y); isC && ((bo.Op == token.LSS && !f.True && n <= 0) || (bo.Op == token.GEQ && f.True && n >= 0)) {
						okEdge = true
					}
				}
			}
			if okEdge {
				continue
			}
			if s := nonNegative(e, pred, seen); s != "" {
				return s
			}
		}
		return ""
	case *ssa.BinOp:
		if x.Op == token.ADD || x.Op == token.MUL {
			if a := nonNegative(x.X, b, seen); a != "" {
				return a
			}
			return nonNegative(x.Y, b, seen)
		}
	case *ssa.Parameter:
		// follow to static callers
		fn := x.Parent()
		idx := -1
		for i, p := range fn.Params {
			if p == x {
				idx = i
			}
		}
		var why string
		found := false
		{
			var cands []*ssa.Function
			for g := range closureSet {
				cands = append(cands, g)
			}
			for _, g := range cands {
				ssau.Instrs(g, func(in ssa.Instruction) {
					ci, ok := in.(ssa.CallInstruction)
					if !ok || ci.Common().StaticCallee() != fn || idx >= len(ci.Common().Args) {
						return
					}
					found = true
					if s := nonNegative(ci.Common().Args[idx], in.Block(), seen); s != "" {
						why = s
					}
				})
			}
		}
		if found && why == "" {
			return ""
		}
		if why != "" {
			return why
		}
		return "parameter " + x.Name() + " of " + prog.FuncName(fn) + " is unconstrained"
	case *ssa.UnOp:
		if n, fld, _, ok := ssau.FieldOf(x.X); ok && n != nil {
			return "loaded from " + n.Obj().Name() + "." + fld + " without a lower bound"
		}
		if _, isG := x.X.(*ssa.Global); isG {
			return "" // package-level tuning variable: configuration, not input
		}
	}
	return "value " + v.Name() + " has no lower bound"
}

var allFuncsCache []*ssa.Function

func allFuncsOf(fn *ssa.Function) []*ssa.Function {
	if fn.Pkg == nil {
		return nil
	}
	var out []*ssa.Function
	for _, m := range fn.Pkg.Members {
		if f, ok := m.(*ssa.Function); ok {
			out = append(out, ssau.WithAnon(f)...)
		}
		if t, ok := m.(*ssa.Type); ok {
			for _, typ := range []types.Type{t.Type(), types.NewPointer(t.Type())} {
				ms := fn.Prog.MethodSets.MethodSet(typ)
				for i := 0; i < ms.Len(); i++ {
					if mf := fn.Prog.MethodValue(ms.At(i)); mf != nil && mf.Blocks != nil {
						out = append(out, ssau.WithAnon(mf)...)
					}
				}
			}
		}
	}
	return out
}

// c07Recover: goja programs run under a deferred recover; explicit panics only in script callbacks.
func c07Recover(c *Ctx) {
	nrun := 0
	for _, f := range c.P.FuncsIn("interpreters/ecmascript") {
		ssau.Instrs(f, func(in ssa.Instruction) {
			ci, ok := in.(ssa.CallInstruction)
			if !ok || !strings.HasPrefix(ssau.CalleeName(ci), "(*"+gojaRuntime+".Runtime).Run") {
				return
			}
			nrun++
			// enclosing function defers a closure that calls recover
			rec := false
			ssau.Instrs(f, func(in2 ssa.Instruction) {
				d, ok := in2.(*ssa.Defer)
				if !ok {
					return
				}
				var fn *ssa.Function
				if mc, ok := d.Call.Value.(*ssa.MakeClosure); ok {
					fn = mc.Fn.(*ssa.Function)
				} else if sf, ok := d.Call.Value.(*ssa.Function); ok {
					fn = sf
				}
				if fn == nil {
					return
				}
				ssau.Instrs(fn, func(in3 ssa.Instruction) {
					if c3, ok := in3.(ssa.CallInstruction); ok {
						if b, ok := c3.Common().Value.(*ssa.Builtin); ok && b.Name() == "recover" {
							if d.Block().Dominates(in.Block()) {
								rec = true
							}
						}
					}
				})
			})
			c.R.Check(rec, "C07-R4", fmt.Sprintf("%s: program runs under recover #%d", fname(f), nrun), c.pos(in), "a deferred recover dominates the call", "the script runtime is entered without a deferred recover: a panic inside a host callback would crash the process")
		})
	}
	if nrun == 0 {
		c.R.Break("C07-R4: no goja Run* call found in package ecmascript")
	}
	// explicit panics
	a, exec := c.ecmaAnalysis()
	if a == nil {
		return
	}
	world := map[*ssa.Function]bool{}
	for _, f := range a.WorldCalled {
		world[f] = true
	}
	// functions only reachable through world-called ones
	onlyWorld := func(f *ssa.Function) bool {
		seen := map[*ssa.Function]bool{}
		var rec func(g *ssa.Function) bool
		rec = func(g *ssa.Function) bool {
			if world[g] {
				return true
			}
			if g == exec || seen[g] {
				return g != exec
			}
			seen[g] = true
			callers := a.Callers[g]
			if len(callers) == 0 {
				return false
			}
			for _, s := range callers {
				if !rec(s.Parent()) {
					return false
				}
			}
			return true
		}
		return rec(f)
	}
	np := 0
	var fl []*ssa.Function
	for f := range a.Reached {
		fl = append(fl, f)
	}
	sort.Slice(fl, func(i, j int) bool { return fname(fl[i]) < fname(fl[j]) })
	for _, f := range fl {
		ssau.Instrs(f, func(in ssa.Instruction) {
			isPanic := false
			if _, ok := in.(*ssa.Panic); ok {
				isPanic = true
			}
			if !isPanic {
				return
			}
			np++
			c.R.Check(onlyWorld(f), "C07-R4", fmt.Sprintf("%s: panic #%d only under the runtime's recover", fname(f), np), c.pos(in), "the function is only called from the script runtime (inside RunProgram)", "an explicit panic is reachable from Exec outside the script runtime's recover")
		})
	}
	// ---- every entry into the script runtime from host-side code is under a deferred recover
	// (exporting a value runs getters, an exception's text runs the thrown object's toString)
	hasRecoverBefore := func(f *ssa.Function, at *ssa.BasicBlock) bool {
		rec := false
		ssau.Instrs(f, func(in2 ssa.Instruction) {
			d, ok := in2.(*ssa.Defer)
			if !ok || !d.Block().Dominates(at) {
				return
			}
			var fn *ssa.Function
			if mc, ok := d.Call.Value.(*ssa.MakeClosure); ok {
				fn = mc.Fn.(*ssa.Function)
			} else if sf, ok := d.Call.Value.(*ssa.Function); ok {
				fn = sf
			}
			if fn == nil {
				return
			}
			ssau.Instrs(fn, func(in3 ssa.Instruction) {
				if c3, ok := in3.(ssa.CallInstruction); ok {
					if b, ok := c3.Common().Value.(*ssa.Builtin); ok && b.Name() == "recover" {
						rec = true
					}
				}
			})
		})
		return rec
	}
	// calls into goja that cannot run script code
	inert := map[string]bool{
		gojaRuntime + ".New": true, gojaRuntime + ".Compile": true, gojaRuntime + ".MustCompile": true, gojaRuntime + ".Parse": true,
		"(*" + gojaRuntime + ".Runtime).Set": true, "(*" + gojaRuntime + ".Runtime).Interrupt": true, "(*" + gojaRuntime + ".Runtime).ClearInterrupt": true,
	}
	isGojaType := func(t types.Type) bool {
		if pt, ok := t.(*types.Pointer); ok {
			t = pt.Elem()
		}
		n, ok := t.(*types.Named)
		return ok && n.Obj().Pkg() != nil && n.Obj().Pkg().Path() == gojaRuntime
	}
	// errors that come out of the runtime
	rawErr := map[ssa.Value]bool{}
	ne := 0
	for _, f := range fl {
		if prog.PkgOf(f) != "interpreters/ecmascript" || onlyWorld(f) {
			continue
		}
		// what recover() hands back in a function that entered the runtime is whatever the runtime panicked
		// with: taken as an `error` it is the runtime's own exception
		ssau.Instrs(f, func(in ssa.Instruction) {
			ta, ok := in.(*ssa.TypeAssert)
			if !ok {
				return
			}
			cl, isC := ta.X.(*ssa.Call)
			if !isC {
				return
			}
			if b, isB := cl.Common().Value.(*ssa.Builtin); !isB || b.Name() != "recover" {
				return
			}
			if _, isIface := ta.AssertedType.Underlying().(*types.Interface); !isIface {
				return // asserted to a concrete type (say *goja.InterruptedError): judged by its type tests
			}
			if ta.CommaOk {
				for _, r := range ssau.Referrers(ta) {
					if ex, isEx := r.(*ssa.Extract); isEx && ex.Index == 0 {
						rawErr[ex] = true
					}
				}
			} else {
				rawErr[ta] = true
			}
		})
		ssau.Instrs(f, func(in ssa.Instruction) {
			ci, ok := in.(ssa.CallInstruction)
			if !ok {
				return
			}
			com := ci.Common()
			name := ssau.CalleeName(ci)
			enters := false
			switch {
			case com.IsInvoke():
				enters = isGojaType(com.Value.Type())
			case com.StaticCallee() != nil && com.StaticCallee().Pkg != nil && com.StaticCallee().Pkg.Pkg.Path() == gojaRuntime:
				enters = !inert[name]
			}
			if strings.HasPrefix(name, "(*"+gojaRuntime+".Runtime).Run") {
				if cl, isCall := in.(*ssa.Call); isCall {
					if ex := callResults(cl)[1]; ex != nil {
						rawErr[ex] = true
					}
				}
				return // decided above ("program runs under recover")
			}
			if !enters {
				return
			}
			ne++
			if name == "" {
				name = com.Method.FullName()
			}
			c.R.Check(hasRecoverBefore(f, in.Block()), "C07-R4", fmt.Sprintf("%s: %s #%d under recover", fname(f), name, ne), c.pos(in), "a deferred recover dominates the call",
				"host-side code calls into the script runtime ("+name+") without a deferred recover: exporting or printing a script value runs script code (getters, toString) that can throw, and the panic crashes the host")
		})
	}
	// an error value produced by the runtime carries script objects: its Error() runs toString.  It must not leave Exec as is.
	// mayRaw: host-side functions of the interpreter that can return such a value (the RunProgram wrapper does, by design)
	var hostFns []*ssa.Function
	for _, f := range fl {
		if prog.PkgOf(f) == "interpreters/ecmascript" && !onlyWorld(f) {
			hostFns = append(hostFns, f)
		}
	}
	errT := types.Universe.Lookup("error").Type()
	mayRaw := map[*ssa.Function]bool{}
	// rawOnly[f]: when every raw error f can return is known (by a type test that held) to be of one of these
	// types; absent when nothing is known
	rawOnly := map[*ssa.Function]map[string]bool{}
	rawCallee := func(v ssa.Value) *ssa.Function {
		if ex, ok := v.(*ssa.Extract); ok {
			v = ex.Tuple
		}
		if cl, ok := v.(*ssa.Call); ok {
			return cl.Common().StaticCallee()
		}
		return nil
	}
	rawAny := map[*ssa.Function]bool{}
	var lastKinds map[string]bool // kinds of the raw error found by the last rawAt (nil: any)
	isRawSrc := func(v ssa.Value) bool {
		if rawErr[v] {
			return true
		}
		ex, ok := v.(*ssa.Extract)
		if !ok {
			if cl, isC := v.(*ssa.Call); isC && types.Identical(cl.Type(), errT) {
				if sc := cl.Common().StaticCallee(); sc != nil && mayRaw[sc] {
					return true
				}
			}
			return false
		}
		cl, ok := ex.Tuple.(*ssa.Call)
		if !ok || !types.Identical(ex.Type(), errT) {
			return false
		}
		sc := cl.Common().StaticCallee()
		return sc != nil && mayRaw[sc]
	}
	// rawAt: can the error operand of this return be a raw runtime error?
	rawAt := func(f *ssa.Function, b *ssa.BasicBlock, res ssa.Value) string {
		// typeFacts: the types T for which `val.(T)` is known to hold / not to hold at block blk
		typeFacts := func(blk *ssa.BasicBlock, val ssa.Value, pol bool) map[string]bool {
			out := map[string]bool{}
			for _, fc := range withPhiWays(flow.FactsAt(blk)) {
				ex, ok := fc.Cond.(*ssa.Extract)
				if !ok || ex.Index != 1 || fc.True != pol {
					continue
				}
				if ta, ok := ex.Tuple.(*ssa.TypeAssert); ok && ta.CommaOk && ta.X == val {
					out[ta.AssertedType.String()] = true
				}
			}
			return out
		}
		raw := ""
		lastKinds = map[string]bool{}
		anyKind := false
		notAtReturn := typeFacts(b, res, false)
		for _, da := range phiEdgesWithBlocks(res, b) {
			hit := ""
			var kinds map[string]bool // what the raw value can be, if known from the callee's summary
			kindsKnown := true
			for _, d := range deepDefs(da.v, []*ssa.Function{f}) {
				if isRawSrc(d) {
					hit = c.posv(d)
					if sc := rawCallee(d); sc != nil && rawOnly[sc] != nil && !rawErr[d] {
						if kinds == nil {
							kinds = map[string]bool{}
						}
						for t := range rawOnly[sc] {
							kinds[t] = true
						}
					} else {
						kindsKnown = false
					}
				}
			}
			if hit == "" {
				continue
			}
			excluded := false
			pos := typeFacts(da.b, da.v, true)
			for t := range pos {
				if notAtReturn[t] {
					excluded = true
				}
			}
			if kindsKnown && kinds != nil {
				all := true
				for t := range kinds {
					if !notAtReturn[t] {
						all = false
					}
				}
				if all {
					excluded = true
				}
			}
			if ph, isPhi := res.(*ssa.Phi); isPhi {
				for i, e := range ph.Edges {
					if e != da.v || ph.Block().Preds[i] != da.b {
						continue
					}
					for _, fc := range flow.EdgeFacts(da.b, ph.Block()) {
						ex, ok := fc.Cond.(*ssa.Extract)
						if !ok || ex.Index != 1 || !fc.True {
							continue
						}
						if ta, ok := ex.Tuple.(*ssa.TypeAssert); ok && ta.CommaOk && ta.X == da.v {
							pos[ta.AssertedType.String()] = true
							if notAtReturn[ta.AssertedType.String()] {
								excluded = true
							}
						}
					}
				}
			}
			if !excluded {
				raw = hit
				// what is known about this raw value's type on the way out
				switch {
				case len(pos) > 0:
					for t := range pos {
						lastKinds[t] = true
					}
				case kindsKnown && kinds != nil:
					for t := range kinds {
						lastKinds[t] = true
					}
				default:
					anyKind = true
				}
			}
		}
		if anyKind {
			lastKinds = nil
		}
		return raw
	}
	for changed := true; changed; {
		changed = false
		for _, f := range hostFns {
			if mayRaw[f] || f == exec {
				continue
			}
			n := f.Signature.Results().Len()
			if n == 0 || !types.Identical(f.Signature.Results().At(n-1).Type(), errT) {
				continue
			}
			for _, b := range f.Blocks {
				ret, ok := b.Instrs[len(b.Instrs)-1].(*ssa.Return)
				if !ok || len(ret.Results) != n {
					continue
				}
				if rawAt(f, b, ret.Results[n-1]) != "" {
					mayRaw[f] = true
					changed = true
					if lastKinds == nil {
						rawOnly[f] = nil
						rawAny[f] = true
					} else if !rawAny[f] {
						if rawOnly[f] == nil {
							rawOnly[f] = map[string]bool{}
						}
						for t := range lastKinds {
							rawOnly[f][t] = true
						}
					}
				}
			}
		}
	}
	nr := 0
	for _, b := range exec.Blocks {
		ret, ok := b.Instrs[len(b.Instrs)-1].(*ssa.Return)
		if !ok || len(ret.Results) != 2 {
			continue
		}
		if provablyNil(ret.Results[1], b) {
			continue
		}
		nr++
		raw := rawAt(exec, b, ret.Results[1])
		c.R.Check(raw == "", "C07-R4", fmt.Sprintf("Exec: error return #%d carries no script object", nr), c.pos(ret), "the error is a plain Go error (made from text obtained under recover) or a package sentinel",
			"Exec returns the runtime's own error value ("+raw+"): a *goja.Exception holds the thrown script object, and core calls Error() on it outside any recover — a throwing toString crashes the host")
	}
}

// c07Errors: dropped errors.
func c07Errors(c *Ctx, walk, step *ssa.Function) {
	errT := types.Universe.Lookup("error").Type()
	n := map[string]int{}
	for _, f := range c.P.FuncsIn("core", "match", "interpreters/ecmascript") {
		ssau.Instrs(f, func(in ssa.Instruction) {
			cl, ok := in.(*ssa.Call)
			if !ok {
				return
			}
			sig := cl.Common().Signature()
			k := sig.Results().Len()
			if k == 0 || !types.Identical(sig.Results().At(k-1).Type(), errT) {
				return
			}
			name := ssau.CalleeName(cl)
			if name == "" {
				name = "dynamic call"
			}
			base := fname(f) + ":" + name
			n[base]++
			key := fmt.Sprintf("%s#%d", base, n[base])
			used := false
			if k == 1 {
				used = len(ssau.Referrers(cl)) > 0
				for _, r := range ssau.Referrers(cl) {
					if _, isD := r.(*ssa.DebugRef); isD && len(ssau.Referrers(cl)) == 1 {
						used = false
					}
				}
			} else if ex := callResults(cl)[k-1]; ex != nil && len(ssau.Referrers(ex)) > 0 {
				used = true
			}
			if used {
				c.R.Discharge("C07-R5", key, c.pos(cl), "error result is used")
				return
			}
			// enumerated infallible calls
			switch {
			case strings.HasSuffix(name, "match.Bindings).Extendm"):
				// constant string keys at even positions, even count
				ok := extendmInfallible(cl)
				c.R.Check(ok, "C07-R5", key, c.pos(cl), "Extendm with constant string keys and an even argument count cannot fail", "error of Extendm dropped although its arguments are not provably well-formed")
			case name == "(*"+gojaRuntime+".Runtime).Set":
				_, isC := ssau.ConstString(cl.Common().Args[1])
				c.R.Check(isC, "C07-R5", key, c.pos(cl), "Runtime.Set with a constant name", "error of Runtime.Set dropped")
			case strings.HasPrefix(name, "fmt.Fprint") || strings.HasPrefix(name, "fmt.Print") || strings.HasSuffix(name, ".Close"):
				c.R.Discharge("C07-R5", key, c.pos(cl), "output / close errors are not part of processing")
			default:
				c.R.Violate("C07-R5", key, c.pos(cl), "the error returned by "+name+" is dropped")
			}
		})
	}
	// Walk: err != nil -> stride.To is set unless already at the error node
	// (in Walk itself, or in the helper of package core that takes one step for it)
	var stepCall *ssa.Call
	walkFns := []*ssa.Function{walk}
	for _, f := range pkgClosure(walk) {
		if f != walk && f != step && prog.PkgOf(f) == "core" {
			walkFns = append(walkFns, f)
		}
	}
	for _, f := range walkFns {
		ssau.Instrs(f, func(in ssa.Instruction) {
			if cl, ok := in.(*ssa.Call); ok && cl.Common().StaticCallee() == step {
				stepCall = cl
			}
		})
	}
	if stepCall == nil {
		c.R.Break("C07-R11: Walk (with its helpers in package core) does not call Step")
		return
	}
	ok := false
	exemptBad, staleBad := "", ""
	var pos ssa.Instruction = stepCall
	// the stores of a stride's To: in the function that calls Step, or in a helper of Walk that is handed Step's results
	var toStores []*ssa.Store
	for _, f := range walkFns {
		toStores = append(toStores, storesTo(f, "Stride", "To")...)
	}
	for _, st := range toStores {
		// the store must be under err != nil and not under any other condition than NodeName != "error"
		under := false
		// the facts that hold at the store: in its block, and — when it sits in a helper with a single call site —
		// at that call (`if err != nil { w.toError(stride, err) }`)
		storeFacts := append([]flow.Fact{}, flow.FactsAt(st.Block())...)
		for fn, depth := st.Parent(), 0; fn != walk && depth < 4; depth++ {
			sites := callSitesOf(fn, walkFns)
			if len(sites) != 1 {
				break
			}
			storeFacts = append(storeFacts, flow.FactsAt(sites[0].Block())...)
			fn = sites[0].Parent()
		}
		for _, f := range storeFacts {
			if bo, isB := f.Cond.(*ssa.BinOp); isB && ssau.IsNilConst(bo.Y) && ((bo.Op == token.NEQ && f.True) || (bo.Op == token.EQL && !f.True)) {
				// (the error may be kept in a field of a record private to the iteration: `attempt.err != nil`)
				for _, d := range deepDefsRecords(bo.X, walkFns) {
					if ex, isEx := d.(*ssa.Extract); isEx && ex.Tuple == ssa.Value(stepCall) && ex.Index == 1 {
						under = true
					}
				}
			}
		}
		if !under {
			continue
		}
		// stored state is at the error node with bindings carrying error/lastNode/lastBindings
		// (built in Walk or in a helper of package core)
		escope := []*ssa.Function{walk}
		for _, f := range pkgClosure(walk) {
			if f != walk && f != step && prog.PkgOf(f) == "core" {
				escope = append(escope, f)
			}
		}
		for _, leaf := range deepDefs(st.Val, escope) {
			al, isAl := leaf.(*ssa.Alloc)
			if !isAl {
				continue
			}
			var nodeOK, bsOK bool
			for _, r := range ssau.Referrers(al) {
				if fa, isFA := r.(*ssa.FieldAddr); isFA {
					for _, r2 := range ssau.Referrers(fa) {
						if s2, isS := r2.(*ssa.Store); isS {
							if ssau.IsField(fa, prog.Abs("core"), "State", "NodeName") {
								if s, isStr := ssau.ConstString(s2.Val); isStr && s == "error" {
									nodeOK = true
								}
							}
							if ssau.IsField(fa, prog.Abs("core"), "State", "Bs") {
								for _, bv := range deepDefs(s2.Val, escope) {
									if ex, isEx := bv.(*ssa.Extract); isEx {
										if cl, isC := ex.Tuple.(*ssa.Call); isC && strings.HasSuffix(ssau.CalleeName(cl), "Extendm") {
											keys := extendmKeys(cl)
											if keys["error"] && keys["lastNode"] && keys["lastBindings"] {
												bsOK = true
											}
										}
									}
								}
							}
						}
					}
				}
			}
			if nodeOK && bsOK {
				ok = true
				pos = st
			}
		}
		// the only exemption is "already at the node error": no other comparison of the state's node decides
		// whether the error is routed
		// (the comparisons that decide the store, and — when the error state is made by a helper — those that decide
		// whether the helper makes one)
		exemptFacts := append([]flow.Fact{}, storeFacts...)
		for _, leaf := range deepDefs(st.Val, escope) {
			if al, isAl := leaf.(*ssa.Alloc); isAl && al.Parent() != st.Parent() {
				exemptFacts = append(exemptFacts, flow.FactsAt(al.Block())...)
			}
		}
		for _, f := range exemptFacts {
			bo, isB := f.Cond.(*ssa.BinOp)
			if !isB || (bo.Op != token.EQL && bo.Op != token.NEQ) {
				continue
			}
			x, y := bo.X, bo.Y
			if isNodeNameRead(y) {
				x, y = y, x
			}
			if !isNodeNameRead(x) {
				continue
			}
			if sv, isStr := ssau.ConstString(y); !isStr || sv != "error" {
				exemptBad = c.pos(bo)
			}
		}
		// the error state is built from the state this step started from (the loop-carried one), not from the
		// state the walk was given
		want := leafSetKey(resolveThroughStructs(stepCall.Common().Args[2], escope))
		for _, leaf := range deepDefs(st.Val, escope) {
			al, isAl := leaf.(*ssa.Alloc)
			if !isAl {
				continue
			}
			for _, r := range ssau.Referrers(al) {
				fa, isFA := r.(*ssa.FieldAddr)
				if !isFA || !ssau.IsField(fa, prog.Abs("core"), "State", "Bs") {
					continue
				}
				for _, r2 := range ssau.Referrers(fa) {
					s2, isS := r2.(*ssa.Store)
					if !isS {
						continue
					}
					for _, bv := range deepDefs(s2.Val, escope) {
						ex, isEx := bv.(*ssa.Extract)
						if !isEx {
							continue
						}
						cl, isC := ex.Tuple.(*ssa.Call)
						if !isC || !strings.HasSuffix(ssau.CalleeName(cl), "Extendm") {
							continue
						}
						// the receiver of Extendm: Copy() of some state's Bs
						for _, rv := range deepDefs(cl.Common().Args[0], escope) {
							cp, isCp := rv.(*ssa.Call)
							if !isCp || cp.Common().StaticCallee() == nil || cp.Common().StaticCallee().Name() != "Copy" || len(cp.Common().Args) != 1 {
								continue
							}
							for _, src := range deepDefs(cp.Common().Args[0], escope) {
								if base, is := isFieldLoad(src, "core", "State", "Bs"); is {
									if leafSetKey(resolveThroughStructs(base, escope)) != want {
										staleBad = c.pos(cp)
									}
								}
							}
						}
					}
				}
			}
		}
	}
	c.R.Check(exemptBad == "", "C07-R11", "Walk: only a machine already at node error is exempt from the error transition", c.pos(pos), "the error transition is skipped only under NodeName == \"error\"", "whether a Step error is routed to the error node also depends on another comparison of the state's node ("+exemptBad+"): an error at that node is swallowed — no returned error, no transition, the message is dropped")
	c.R.Check(staleBad == "", "C07-R11", "Walk: the error state carries the bindings of the state the failing step started from", c.pos(pos), "the bindings copied into the error state are those of the state handed to Step", "the error state is built from another state than the one the failing step started from ("+staleBad+"): bindings made earlier in the same walk are lost when a later step fails")
	c.R.Check(ok, "C07-R5", "Walk: a Step error becomes the error-node transition", c.pos(pos), "under err != nil, Stride.To = {error, bindings with error/lastNode/lastBindings}", "a Step error is not converted into a transition to the error node carrying error, lastNode and lastBindings")
}

// isNodeNameRead: a read of some State's NodeName.
func isNodeNameRead(v ssa.Value) bool {
	_, is := isFieldLoad(v, "core", "State", "NodeName")
	return is
}

func extendmKeys(cl *ssa.Call) map[string]bool {
	keys := map[string]bool{}
	args := cl.Common().Args
	if len(args) != 2 {
		return keys
	}
	sl, ok := args[1].(*ssa.Slice)
	if !ok {
		return keys
	}
	al, ok := sl.X.(*ssa.Alloc)
	if !ok {
		return keys
	}
	for _, r := range ssau.Referrers(al) {
		ia, ok := r.(*ssa.IndexAddr)
		if !ok {
			continue
		}
		idx, isC := ssau.ConstInt(ia.Index)
		if !isC || idx%2 != 0 {
			continue
		}
		for _, r2 := range ssau.Referrers(ia) {
			if st, ok := r2.(*ssa.Store); ok {
				if s, isS := ssau.ConstString(st.Val); isS {
					keys[s] = true
				}
			}
		}
	}
	return keys
}

// extendmInfallible: variadic array literal of even length whose even slots are string constants.
func extendmInfallible(cl *ssa.Call) bool {
	args := cl.Common().Args
	if len(args) != 2 {
		return false
	}
	sl, ok := args[1].(*ssa.Slice)
	if !ok {
		return false
	}
	al, ok := sl.X.(*ssa.Alloc)
	if !ok {
		return false
	}
	arr, ok := al.Type().Underlying().(*types.Pointer).Elem().Underlying().(*types.Array)
	if !ok || arr.Len()%2 != 0 {
		return false
	}
	evenOK := map[int64]bool{}
	for _, r := range ssau.Referrers(al) {
		ia, ok := r.(*ssa.IndexAddr)
		if !ok {
			continue
		}
		idx, isC := ssau.ConstInt(ia.Index)
		if !isC {
			return false
		}
		for _, r2 := range ssau.Referrers(ia) {
			if st, ok := r2.(*ssa.Store); ok && idx%2 == 0 {
				if _, isS := ssau.ConstString(st.Val); isS {
					evenOK[idx] = true
				}
			}
		}
	}
	for i := int64(0); i < arr.Len(); i += 2 {
		if !evenOK[i] {
			return false
		}
	}
	return true
}

// c07Recursion: recursive functions reachable from Exec must not be applied to world values.
func c07Recursion(c *Ctx) {
	a, _ := c.ecmaAnalysis()
	if a == nil {
		return
	}
	// static call graph among reached functions
	succ := map[*ssa.Function][]*ssa.Function{}
	for site, callees := range a.CallEdges {
		succ[site.Parent()] = append(succ[site.Parent()], callees...)
	}
	recursive := func(f *ssa.Function) bool {
		seen := map[*ssa.Function]bool{}
		stack := append([]*ssa.Function{}, succ[f]...)
		for len(stack) > 0 {
			g := stack[len(stack)-1]
			stack = stack[:len(stack)-1]
			if g == f {
				return true
			}
			if seen[g] {
				continue
			}
			seen[g] = true
			stack = append(stack, succ[g]...)
		}
		return false
	}
	var fl []*ssa.Function
	for f := range a.Reached {
		fl = append(fl, f)
	}
	sort.Slice(fl, func(i, j int) bool { return fname(fl[i]) < fname(fl[j]) })
	nrec := 0
	for _, f := range fl {
		if !recursive(f) {
			continue
		}
		nrec++
		var bad []string
		for _, p := range f.Params {
			if !pta.PointerLike(p.Type()) {
				continue
			}
			if _, isIface := p.Type().Underlying().(*types.Interface); !isIface {
				if _, isMap := p.Type().Underlying().(*types.Map); !isMap {
					if _, isSl := p.Type().Underlying().(*types.Slice); !isSl {
						continue
					}
				}
			}
			for _, l := range a.PointsTo(p) {
				if l.Obj.Kind == pta.KWorld {
					bad = append(bad, p.Name()+" may hold a value straight from the script runtime")
				}
			}
		}
		c.R.Check(len(bad) == 0, "C07-R7", fname(f)+": recursion over canonicalised values only", c.P.Pos(f.Pos()), "no parameter can hold an un-canonicalised script value", strings.Join(bad, "; ")+" (a cyclic script value would recurse without bound)")
	}
	c.R.Extra["recursive_functions_in_exec_closure"] = nrec
	// formatting is recursion too: a raw script value handed to fmt/log is walked by every verb except %T
	nf := 0
	for _, f := range fl {
		if prog.PkgOf(f) != "interpreters/ecmascript" {
			continue
		}
		ssau.Instrs(f, func(in ssa.Instruction) {
			cl, ok := in.(*ssa.Call)
			if !ok || cl.Common().StaticCallee() == nil || cl.Common().StaticCallee().Pkg == nil {
				return
			}
			sc := cl.Common().StaticCallee()
			pk := sc.Pkg.Pkg.Path()
			if pk != "fmt" && pk != "log" {
				return
			}
			sig := sc.Signature
			if !sig.Variadic() {
				return
			}
			vi := sig.Params().Len() - 1
			if sig.Recv() != nil {
				vi++
			}
			// the format string, if the parameter before the variadic one is a constant string
			var verbs []string
			haveFmt := false
			if vi >= 1 && vi-1 < len(cl.Common().Args) {
				if fs, isS := ssau.ConstString(cl.Common().Args[vi-1]); isS && strings.HasSuffix(sc.Name(), "f") {
					verbs, haveFmt = fmtVerbs(fs), true
				}
			}
			for i := int64(0); i < 16; i++ {
				arg := varargAt(cl, vi, i)
				if arg == nil {
					break
				}
				raw := false
				for _, l := range a.PointsTo(arg) {
					if l.Obj.Kind == pta.KWorld {
						raw = true
					}
				}
				if !raw {
					continue
				}
				nf++
				key := fmt.Sprintf("%s: %s.%s operand #%d", fname(f), pk, sc.Name(), i+1)
				okT := haveFmt && verbs != nil && int(i) < len(verbs) && verbs[i] == "T"
				c.R.Check(okT, "C07-R7", key, c.pos(cl), "a raw script value is only formatted with %T", "a value straight from the script runtime is formatted by walking it: a self-referential script value (var a=[]; a.push(a)) recurses until the stack overflows, which no recover can catch")
			}
		})
	}
	c.R.Extra["raw_script_values_formatted"] = nf
}

// fmtVerbs: the verb letters of a format string in operand order; nil when the
// string uses explicit argument indexes or '*' widths (operand mapping not decided).
func fmtVerbs(f string) []string {
	out := []string{}
	for i := 0; i < len(f); i++ {
		if f[i] != '%' {
			continue
		}
		i++
		for i < len(f) && strings.ContainsRune("+-# 0123456789.", rune(f[i])) {
			i++
		}
		if i >= len(f) {
			break
		}
		switch f[i] {
		case '%':
			continue
		case '[', '*':
			return nil
		}
		out = append(out, string(f[i]))
	}
	return out
}

// c07Invariant: C07-R8.
func c07Invariant(c *Ctx, compile *ssa.Function) {
	// the store that marks the spec compiled
	var mark *ssa.Store
	ssau.Instrs(compile, func(in ssa.Instruction) {
		if st, ok := in.(*ssa.Store); ok && ssau.IsField(st.Addr, prog.Abs("core"), "Spec", "compiled") {
			if cst, isC := st.Val.(*ssa.Const); isC && cst.Value != nil && cst.Value.String() == "true" {
				mark = st
			}
		}
	})
	if mark == nil {
		c.R.Break("C07-R8: Compile does not mark the spec compiled")
		return
	}
	// nilEdge: the successor taken when v is nil, for every test of v
	nilEdges := func(v ssa.Value) []*ssa.BasicBlock {
		var out []*ssa.BasicBlock
		for _, r := range ssau.Referrers(v) {
			bo, ok := r.(*ssa.BinOp)
			if !ok || !(ssau.IsNilConst(bo.X) || ssau.IsNilConst(bo.Y)) || (bo.Op != token.EQL && bo.Op != token.NEQ) {
				continue
			}
			for _, r2 := range ssau.Referrers(bo) {
				if iff, isIf := r2.(*ssa.If); isIf {
					if bo.Op == token.EQL {
						out = append(out, iff.Block().Succs[0])
					} else {
						out = append(out, iff.Block().Succs[1])
					}
				}
			}
		}
		return out
	}
	loops := flow.Loops(compile)
	nb, nn := 0, 0
	parse := c.P.Func("core", "Spec", "ParsePatterns")
	skip := map[*ssa.Function]bool{}
	if parse != nil {
		for _, f := range pkgClosure(parse) {
			skip[f] = true // a loader of its own; it does not mark the spec compiled
		}
	}
	// canReachMark: can control that is at block `from` of fn still arrive at the mark?
	errNonNil := func(v ssa.Value) bool {
		for _, d := range phiDefs(v, nil, map[ssa.Value]bool{}) {
			if ssau.IsNilConst(d) {
				return false
			}
		}
		return true
	}
	var scopeFns []*ssa.Function
	for _, f := range pkgClosure(compile) {
		if !skip[f] && prog.PkgOf(f) == "core" {
			scopeFns = append(scopeFns, f)
		}
	}
	var canReachMarkD func(fn *ssa.Function, from *ssa.BasicBlock, depth int) (bool, string)
	// carried: errv (a value of fn) is a non-nil error; can control still arrive at the mark?
	carried := func(fn *ssa.Function, errv ssa.Value, depth int) (bool, string) {
		if errv == nil {
			return true, fn.Name() + " drops the error"
		}
		edges := nonNilEdges(errv)
		handedOn := false
		for _, r := range ssau.Referrers(errv) {
			if ret, isRet := r.(*ssa.Return); isRet && len(ret.Results) > 0 && ret.Results[len(ret.Results)-1] == errv {
				handedOn = true
			}
		}
		if len(edges) == 0 && !handedOn {
			return true, fn.Name() + " does not test the error"
		}
		for _, e := range edges {
			if can, how := canReachMarkD(fn, e, depth+1); can {
				if how == "" {
					how = fn.Name() + " goes on after the error"
				}
				return true, how
			}
		}
		if handedOn && fn != compile {
			// `return helper(...)`: the error is this function's own result; its callers decide
			for _, b := range fn.Blocks {
				if ret, isRet := b.Instrs[len(b.Instrs)-1].(*ssa.Return); isRet && len(ret.Results) > 0 && ret.Results[len(ret.Results)-1] == errv {
					if can, how := canReachMarkD(fn, b, depth+1); can {
						return true, how
					}
					break
				}
			}
		}
		return false, ""
	}
	canReachMarkD = func(fn *ssa.Function, from *ssa.BasicBlock, depth int) (bool, string) {
		if fn == compile {
			return from == mark.Block() || flow.Reachable(from, mark.Block(), nil), ""
		}
		if depth > 6 {
			return true, "helper nesting too deep"
		}
		// a helper in Compile's closure: every return reachable from here must carry an error ...
		blocks := flow.ReachableFrom(from, nil)
		blocks[from] = true
		for b := range blocks {
			ret, ok := b.Instrs[len(b.Instrs)-1].(*ssa.Return)
			if !ok {
				continue
			}
			if len(ret.Results) == 0 || !errNonNil(ret.Results[len(ret.Results)-1]) {
				return true, "helper " + fn.Name() + " can return without an error (" + c.pos(ret) + ")"
			}
		}
		// ... and no caller may go on to the mark with that error
		sites := callSitesOf(fn, scopeFns)
		if len(sites) == 0 {
			return true, "helper " + fn.Name() + " is not called from Compile's closure (cannot establish)"
		}
		for _, site := range sites {
			cl, isCall := site.(*ssa.Call)
			if !isCall {
				return true, "helper " + fn.Name() + " is started, not called"
			}
			var errv ssa.Value
			if tup, isTup := cl.Type().(*types.Tuple); isTup {
				errv = callResults(cl)[tup.Len()-1]
			} else {
				errv = cl
			}
			if can, how := carried(site.Parent(), errv, depth); can {
				return true, how
			}
		}
		return false, ""
	}
	canReachMark := func(fn *ssa.Function, from *ssa.BasicBlock) (bool, string) { return canReachMarkD(fn, from, 0) }
	var underNodesLoopD func(fn *ssa.Function, b *ssa.BasicBlock, depth int) bool
	underNodesLoopD = func(fn *ssa.Function, b *ssa.BasicBlock, depth int) bool {
		for _, l := range enclosingLoops(flow.Loops(fn), b) {
			if op := loopOperand(l); op != nil {
				if _, is := isFieldLoad(op, "core", "Spec", "Nodes"); is {
					return true
				}
			}
		}
		if fn == compile || depth > 4 {
			return false
		}
		sites := callSitesOf(fn, scopeFns)
		for _, site := range sites {
			if !underNodesLoopD(site.Parent(), site.Block(), depth+1) {
				return false
			}
		}
		return len(sites) > 0
	}
	underNodesLoop := func(fn *ssa.Function, b *ssa.BasicBlock) bool { return underNodesLoopD(fn, b, 0) }
	_ = loops
	var visitFns []*ssa.Function
	for _, f := range pkgClosure(compile) {
		if !skip[f] && prog.PkgOf(f) == "core" {
			visitFns = append(visitFns, f)
		}
	}
	sort.Slice(visitFns, func(i, j int) bool { return fname(visitFns[i]) < fname(visitFns[j]) })
	for _, vf := range visitFns {
		vf := vf
		ssau.Instrs(vf, func(in ssa.Instruction) {
			switch x := in.(type) {
			case *ssa.UnOp:
				ia, ok := x.X.(*ssa.IndexAddr)
				if !ok || x.Op != token.MUL {
					return
				}
				if _, is := isFieldLoad(ia.X, "core", "Branches", "Branches"); !is {
					return
				}
				nb++
				key := fmt.Sprintf("Compile: branch element #%d is never null in a compiled spec", nb)
				edges := nilEdges(x)
				ok2, why := len(edges) > 0, "the branch element is not tested for nil"
				for _, e := range edges {
					if can, how := canReachMark(vf, e); can {
						ok2, why = false, "after finding a null branch Compile can still mark the spec compiled; Branches.consider then calls a method on the nil branch and the host panics"
						if how != "" {
							why += " (" + how + ")"
						}
					}
				}
				if ok2 && !underNodesLoop(vf, x.Block()) {
					ok2, why = false, "the branches are not visited for every node of the spec"
				}
				c.R.Check(ok2, "C07-R8", key, c.pos(x), "the nil edge cannot reach the 'compiled' mark; visited for every node", why)
			case *ssa.Extract:
				nx, ok := x.Tuple.(*ssa.Next)
				if !ok || x.Index != 2 {
					return
				}
				rg, ok := nx.Iter.(*ssa.Range)
				if !ok {
					return
				}
				if _, is := isFieldLoad(rg.X, "core", "Spec", "Nodes"); !is {
					return
				}
				if vf != compile {
					return
				}
				nn++
				key := fmt.Sprintf("Compile: node value #%d is never null in a compiled spec", nn)
				edges := nilEdges(x)
				ok2, why := len(edges) > 0, "the node value is not tested for nil"
				for _, e := range edges {
					if !(e == mark.Block() || flow.Reachable(e, mark.Block(), nil)) {
						continue
					}
					// replaced in the spec by a fresh node on that edge
					replaced := false
					for _, b := range compile.Blocks {
						if b != e && !e.Dominates(b) {
							continue
						}
						for _, i2 := range b.Instrs {
							mu, isMU := i2.(*ssa.MapUpdate)
							if !isMU {
								continue
							}
							if _, is := isFieldLoad(mu.Map, "core", "Spec", "Nodes"); !is {
								continue
							}
							k, isK := mu.Key.(*ssa.Extract)
							if isK && k.Tuple == x.Tuple && k.Index == 1 && localFresh(mu.Value) {
								replaced = true
							}
						}
					}
					// the replacement must come before anything else on that edge: the edge block itself holds it
					if !replaced {
						ok2, why = false, "after finding a null node Compile can mark the spec compiled without having replaced the null in the spec"
					}
				}
				c.R.Check(ok2, "C07-R8", key, c.pos(x), "a null node is replaced by a fresh node in the spec (or compilation fails)", why)
			}
		})
	}
	if nb == 0 || nn == 0 {
		c.R.Break("C07-R8: Compile does not visit node values (%d) and branch elements (%d)", nn, nb)
	}
}

// nonNilEdges: successors taken when v is known to be non-nil, for every nil test of v.
func nonNilEdges(v ssa.Value) []*ssa.BasicBlock {
	var out []*ssa.BasicBlock
	for _, r := range ssau.Referrers(v) {
		bo, ok := r.(*ssa.BinOp)
		if !ok || !(ssau.IsNilConst(bo.X) || ssau.IsNilConst(bo.Y)) || (bo.Op != token.EQL && bo.Op != token.NEQ) {
			continue
		}
		for _, r2 := range ssau.Referrers(bo) {
			if iff, isIf := r2.(*ssa.If); isIf {
				if bo.Op == token.NEQ {
					out = append(out, iff.Block().Succs[0])
				} else {
					out = append(out, iff.Block().Succs[1])
				}
			}
		}
	}
	return out
}

// c07Termination: C07-R9.  Every recursive step of the matcher hands on a part of the pattern it was given, with
// one exception: a bound variable's value is used as the pattern.  That expansion consumes nothing of the message
// when the value is itself a variable string (a message value "?x" bound to ?x), so it must not be reachable for
// such a value: the recursion would only end with the stack.
func c07Termination(c *Ctx) {
	m := c.newMatchModel()
	n := 0
	// handed: parameters of helpers that are given a bound value without being the place where a pattern is taken
	// apart (no pattern of the caller ever arrives there): the bound value is judged where the helper passes it on
	handed := map[*ssa.Parameter]bool{}
	// boundDef: the definition of pat that is a value looked up in bindings (or such a value handed to a helper)
	boundDef := func(pat ssa.Value) ssa.Value {
		var bound ssa.Value
		for _, d := range phiDefs(pat, nil, map[ssa.Value]bool{}) {
			v := d
			if ex, isEx := v.(*ssa.Extract); isEx && ex.Index == 0 {
				v = ex.Tuple
			}
			if lk, isLk := v.(*ssa.Lookup); isLk && isBindingsT(lk.X.Type()) {
				bound = d
			}
			if pa, isP := v.(*ssa.Parameter); isP && handed[pa] {
				bound = d
			}
		}
		return bound
	}
	// guarded: the call cl, which uses the bound value as a pattern, cannot be reached when bound is a string that
	// IsVariable — by a test in cl's function, or, for a value the function was handed, at every place that hands it in
	var guarded func(cl ssa.CallInstruction, bound ssa.Value, depth int) bool
	guarded = func(cl ssa.CallInstruction, bound ssa.Value, depth int) bool {
		for _, r := range ssau.Referrers(bound) {
			ta, isTA := r.(*ssa.TypeAssert)
			if !isTA || !ta.CommaOk || !types.Identical(ta.AssertedType, types.Typ[types.String]) {
				continue
			}
			var str, isStr ssa.Value
			for _, r2 := range ssau.Referrers(ta) {
				if ex, isEx := r2.(*ssa.Extract); isEx {
					if ex.Index == 0 {
						str = ex
					} else {
						isStr = ex
					}
				}
			}
			if str == nil || isStr == nil {
				continue
			}
			for _, r2 := range ssau.Referrers(str) {
				iv, isC := r2.(*ssa.Call)
				if !isC || iv.Common().StaticCallee() == nil || iv.Common().StaticCallee().Name() != "IsVariable" {
					continue
				}
				facts := []flow.Fact{{Cond: isStr, True: true}, {Cond: iv, True: true}}
				if flow.InstrDominates(ta, cl) && !flow.ReachableUnder(ta.Block(), facts, cl.Block()) {
					return true
				}
			}
		}
		pa, isP := bound.(*ssa.Parameter)
		if !isP || depth > 3 || !handed[pa] {
			return false
		}
		sites := sitesWithArgs(pa.Parent(), m.fns)
		pi := paramIdx(pa)
		for _, s := range sites {
			if pi >= len(s.args) {
				return false
			}
			b2 := boundDef(s.args[pi])
			if b2 == nil {
				continue // not a bound value at this site
			}
			if !guarded(s.site, b2, depth+1) {
				return false
			}
		}
		return len(sites) > 0
	}
	type step struct {
		f     *ssa.Function
		cl    *ssa.Call
		bound ssa.Value
	}
	var steps []step
	for changed := true; changed; {
		changed = false
		steps = nil
		for _, f := range m.fns {
			ssau.Instrs(f, func(in ssa.Instruction) {
				cl, ok := in.(*ssa.Call)
				if !ok {
					return
				}
				sc := cl.Common().StaticCallee()
				if sc == nil || !m.inSet[sc] {
					return
				}
				// a recursive step: the callee leads back to this function
				back := false
				for _, g := range pkgClosure(sc) {
					if g == f {
						back = true
					}
				}
				if !back {
					return
				}
				// the pattern operand: the first operand of empty-interface type
				var pat ssa.Value
				var patParam *ssa.Parameter
				for i, p := range sc.Params {
					if it, isI := p.Type().Underlying().(*types.Interface); isI && it.NumMethods() == 0 && i < len(cl.Common().Args) {
						pat = cl.Common().Args[i]
						patParam = p
						break
					}
				}
				if pat == nil {
					return
				}
				// is it a value looked up in bindings?
				bound := boundDef(pat)
				if bound == nil {
					return
				}
				if !m.has(patParam, "P") {
					// no pattern ever arrives at this parameter: the callee is a helper for bound values
					if !handed[patParam] {
						handed[patParam] = true
						changed = true
					}
					return
				}
				steps = append(steps, step{f, cl, bound})
			})
		}
	}
	for _, st := range steps {
		n++
		key := fmt.Sprintf("%s: a bound value that is a variable string is not expanded again #%d", fname(blameCaller(st.f, m.fns)), n)
		// the guard: bound.(string) and IsVariable of that string
		okGuard := guarded(st.cl, st.bound, 0)
		c.R.Check(okGuard, "C07-R9", key, c.pos(st.cl), "unreachable when the bound value is a string that IsVariable", "the value bound to a variable is matched as a pattern even when it is itself a variable string: a message value like \"?x\" bound to ?x is looked up again without consuming anything of the message, and the recursion ends with a fatal stack overflow that no recover can intercept")
	}
	if n == 0 {
		c.R.Break("C07-R9: the matcher never uses a bound value as a pattern")
	}
}

// c07Loader: C07-R10.  sio.ResolveSpecSource is the loader of specification documents by reference.  In its closure
// no error is dropped (a document that could not be read is not decoded), and a byte of the document is only
// looked at under a test of its length (an empty document is an error, not a crash).
func c07Loader(c *Ctx) {
	rs := c.fn("sio", "", "ResolveSpecSource")
	if rs == nil {
		return
	}
	errT := types.Universe.Lookup("error").Type()
	var fns []*ssa.Function
	for _, f := range pkgClosure(rs) {
		if prog.PkgOf(f) == "sio" {
			fns = append(fns, f)
			c.R.Fn(fname(f))
		}
	}
	n := map[string]int{}
	nIdx := 0
	for _, f := range fns {
		ssau.Instrs(f, func(in ssa.Instruction) {
			switch x := in.(type) {
			case *ssa.Call:
				sig := x.Common().Signature()
				k := sig.Results().Len()
				if k == 0 || !types.Identical(sig.Results().At(k-1).Type(), errT) {
					return
				}
				name := ssau.CalleeName(x)
				if name == "" {
					name = "dynamic call"
				}
				base := fname(blameCaller(f, fns)) + ":" + name
				n[base]++
				key := fmt.Sprintf("%s#%d error used", base, n[base])
				var ev ssa.Value = x
				if k > 1 {
					ev = callResults(x)[k-1]
				}
				used := false
				if ev != nil {
					for _, r := range ssau.Referrers(ev) {
						if _, isD := r.(*ssa.DebugRef); !isD {
							used = true
						}
					}
				}
				switch {
				case used:
					c.R.Discharge("C07-R10", key, c.pos(x), "error result is used")
				case strings.HasSuffix(name, ".Close") || strings.HasPrefix(name, "fmt.Fprint") || strings.HasPrefix(name, "fmt.Print"):
					c.R.Discharge("C07-R10", key, c.pos(x), "close / output errors are not part of loading")
				default:
					c.R.Violate("C07-R10", key, c.pos(x), "the error returned by "+name+" is dropped (overwritten or never looked at): a document that could not be read is decoded all the same")
				}
			case *ssa.IndexAddr, *ssa.Index:
				var base, idx ssa.Value
				if ia, ok := x.(*ssa.IndexAddr); ok {
					base, idx = ia.X, ia.Index
				} else {
					ix := x.(*ssa.Index)
					base, idx = ix.X, ix.Index
				}
				bt, isSl := base.Type().Underlying().(*types.Slice)
				if !isSl {
					return
				}
				if b, isB := bt.Elem().Underlying().(*types.Basic); !isB || b.Kind() != types.Uint8 {
					return
				}
				ci, isConst := idx.(*ssa.Const)
				if !isConst {
					return
				}
				k, _ := constant.Int64Val(ci.Value)
				nIdx++
				key := fmt.Sprintf("%s: byte %d of the document read under a length test #%d", fname(blameCaller(f, fns)), k, nIdx)
				ok := false
				for _, ft := range flow.FactsAt(in.Block()) {
					if lenBound(ft, base) > k {
						ok = true
					}
				}
				// the document handed to a helper: the test may be the caller's
				if pr, isP := base.(*ssa.Parameter); isP && !ok {
					sites := callSitesOf(f, fns)
					all := len(sites) > 0
					for _, site := range sites {
						okSite := false
						for pi, fp := range f.Params {
							if fp != pr || pi >= len(site.Common().Args) {
								continue
							}
							for _, ft := range flow.FactsAt(site.Block()) {
								if lenBound(ft, site.Common().Args[pi]) > k {
									okSite = true
								}
							}
						}
						if !okSite {
							all = false
						}
					}
					ok = all
				}
				c.R.Check(ok, "C07-R10", key, c.pos(in), "dominated by a test that the document is longer than the index", "a byte of the document is read without a test of its length: an empty document (or one that could not be read) crashes the loader instead of yielding an error")
			}
		})
	}
}

// lenBound: the least length of slice v that fact ft guarantees (0 if it says nothing about len(v)).
func lenBound(ft flow.Fact, v ssa.Value) int64 {
	bo, ok := ft.Cond.(*ssa.BinOp)
	if !ok {
		return 0
	}
	isLen := func(x ssa.Value) bool {
		cl, ok := x.(*ssa.Call)
		if !ok {
			return false
		}
		b, isB := cl.Common().Value.(*ssa.Builtin)
		if !isB || b.Name() != "len" {
			return false
		}
		a := cl.Common().Args[0]
		if a == v {
			return true
		}
		// the same variable read twice
		ca, cb := cellOf(a), cellOf(v)
		return ca != nil && ca == cb
	}
	cst := func(x ssa.Value) (int64, bool) {
		c, ok := x.(*ssa.Const)
		if !ok || c.Value == nil {
			return 0, false
		}
		return constant.Int64Val(c.Value)
	}
	op, X, Y := bo.Op, bo.X, bo.Y
	if !isLen(X) {
		// put len on the left
		flip := map[token.Token]token.Token{token.EQL: token.EQL, token.NEQ: token.NEQ, token.LSS: token.GTR, token.GTR: token.LSS, token.LEQ: token.GEQ, token.GEQ: token.LEQ}
		if !isLen(Y) {
			return 0
		}
		X, Y = Y, X
		op = flip[op]
	}
	k, ok := cst(Y)
	if !ok {
		return 0
	}
	if !ft.True {
		neg := map[token.Token]token.Token{token.EQL: token.NEQ, token.NEQ: token.EQL, token.LSS: token.GEQ, token.GEQ: token.LSS, token.GTR: token.LEQ, token.LEQ: token.GTR}
		op = neg[op]
	}
	switch op {
	case token.GTR:
		return k + 1
	case token.GEQ:
		return k
	case token.NEQ:
		if k == 0 {
			return 1
		}
	case token.EQL:
		return k
	}
	return 0
}

// c07ExecContract: Step and Branch.try use the execution an action or guard returns whenever the error is nil (the
// nil-contract analysis accepts the err == nil edge as evidence, "pair rule").  FuncAction.Exec, through which every
// action and guard runs, has to keep its side: no return hands back a nil execution together with a nil error.
func c07ExecContract(c *Ctx) {
	exec := c.fn("core", "FuncAction", "Exec")
	if exec == nil {
		return
	}
	scope := []*ssa.Function{exec}
	for _, f := range pkgClosure(exec) {
		if f != exec && prog.PkgOf(f) == "core" {
			scope = append(scope, f) // the helpers Exec is split into
		}
	}
	// same: a denotes leaf — the value itself, or a helper's parameter that receives it at the helper's one call site
	var same func(a, leaf ssa.Value, depth int) bool
	same = func(a, leaf ssa.Value, depth int) bool {
		if a == leaf {
			return true
		}
		// ... or a value all of whose definitions, through helper parameters and helper results (the wrapped call
		// made in one helper, its execution traced in another), are that leaf
		if ds := deepDefs(a, scope); depth == 0 && len(ds) == 1 && ds[0] == leaf {
			return true
		}
		pr, isP := a.(*ssa.Parameter)
		if !isP || depth > 2 {
			return false
		}
		sites := callSitesOf(pr.Parent(), scope)
		if len(sites) != 1 {
			return false
		}
		for i, fp := range pr.Parent().Params {
			if fp == pr && i < len(sites[0].Common().Args) {
				return same(sites[0].Common().Args[i], leaf, depth+1)
			}
		}
		return false
	}
	nonNil := func(leaf ssa.Value, facts []flow.Fact) bool {
		switch x := leaf.(type) {
		case *ssa.Alloc, *ssa.MakeInterface:
			return true
		case *ssa.Call:
			if sc := x.Common().StaticCallee(); sc != nil && sc.Name() == "NewExecution" {
				return true
			}
			n := ssau.CalleeName(x)
			if n == "errors.New" || n == "fmt.Errorf" {
				return true
			}
		case *ssa.UnOp:
			if _, isG := x.X.(*ssa.Global); isG {
				return true // a package sentinel
			}
		}
		for _, ft := range flow.Expand(facts) {
			bo, ok := ft.Cond.(*ssa.BinOp)
			if !ok || (bo.Op != token.NEQ && bo.Op != token.EQL) {
				continue
			}
			if (same(bo.X, leaf, 0) && ssau.IsNilConst(bo.Y)) || (same(bo.Y, leaf, 0) && ssau.IsNilConst(bo.X)) {
				if (bo.Op == token.NEQ) == ft.True {
					return true
				}
			}
		}
		return false
	}
	n := 0
	for _, b := range exec.Blocks {
		ret, ok := b.Instrs[len(b.Instrs)-1].(*ssa.Return)
		if !ok || len(ret.Results) != 2 {
			continue
		}
		n++
		base := flow.FactsAt(b)
		var allNonNilAt func(v ssa.Value, base []flow.Fact, depth int) bool
		allNonNilAt = func(v ssa.Value, base []flow.Fact, depth int) bool {
			// a local kept in a memory cell (a field of a local record): what the stores that can still be seen as
			// nil at this load put there
			if depth < 4 {
				if defs, zero, isCell := nilReachingCellDefs(v); isCell {
					if zero {
						return false
					}
					for _, d := range defs {
						if !allNonNilAt(d.v, flow.FactsAt(d.b), depth+1) {
							return false
						}
					}
					return true
				}
			}
			srcs := sourcesWithFactsAt(v, scope, base)
			if len(srcs) == 0 {
				return false
			}
			for _, s := range srcs {
				if ssau.IsNilConst(s.leaf) || !nonNil(s.leaf, append(append([]flow.Fact{}, base...), s.facts...)) {
					return false
				}
			}
			return true
		}
		allNonNil := func(v ssa.Value) bool { return allNonNilAt(v, base, 0) }
		ok2 := allNonNil(ret.Results[0]) || allNonNil(ret.Results[1])
		c.R.Check(ok2, "C07-R1", fmt.Sprintf("FuncAction.Exec: return #%d gives an execution or an error", n), c.pos(ret), "the execution is never nil there, or the error never is", "FuncAction.Exec can return no execution and no error (a native action or guard that returns nil, nil): Step and Branch.try read the execution whenever the error is nil, and the host panics")
	}
	if n == 0 {
		c.R.Break("C07-R1: FuncAction.Exec has no return")
	}
}

// nilReachingCellDefs is reachingCellDefs for the question "can this load see nil": v is a load of a private memory
// cell (a local variable, or a field of a local record, that is only read and written in place); returned are the
// stores whose value the load can see on a way that passes no other store into the cell and takes no branch edge on
// which the cell is known not to be nil (`if run.exe == nil { run.exe = NewExecution(nil) }`: the value that was there
// before is seen afterwards only when it was not nil).  zero: the load can see the cell as it was allocated.
func nilReachingCellDefs(v ssa.Value) (defs []cellDef, zero bool, ok bool) {
	all, _, ok := privateCellDefs(v)
	if !ok {
		return nil, false, false
	}
	ld := v.(*ssa.UnOp)
	var al *ssa.Alloc
	field := -1
	switch a := ld.X.(type) {
	case *ssa.Alloc:
		al = a
	case *ssa.FieldAddr:
		al, _ = a.X.(*ssa.Alloc)
		field = a.Field
	}
	if al == nil {
		return nil, false, false
	}
	isStore := map[ssa.Instruction]bool{}
	for _, d := range all {
		isStore[d.store] = true
	}
	sameCell := func(x ssa.Value) bool {
		u, isU := x.(*ssa.UnOp)
		if !isU || u.Op != token.MUL {
			return false
		}
		switch a := u.X.(type) {
		case *ssa.Alloc:
			return field < 0 && a == al
		case *ssa.FieldAddr:
			return field >= 0 && a.X == ssa.Value(al) && a.Field == field
		}
		return false
	}
	// knownNonNil: on the edge from b to its successor #i the cell is known not to hold nil
	knownNonNil := func(b *ssa.BasicBlock, i int) bool {
		if len(b.Instrs) == 0 || len(b.Succs) != 2 || b.Succs[0] == b.Succs[1] {
			return false
		}
		iff, isIf := b.Instrs[len(b.Instrs)-1].(*ssa.If)
		if !isIf {
			return false
		}
		bo, isB := iff.Cond.(*ssa.BinOp)
		if !isB || (bo.Op != token.EQL && bo.Op != token.NEQ) {
			return false
		}
		var x ssa.Value
		switch {
		case ssau.IsNilConst(bo.Y):
			x = bo.X
		case ssau.IsNilConst(bo.X):
			x = bo.Y
		}
		if x == nil || !sameCell(x) || x.(*ssa.UnOp).Block() != b {
			return false
		}
		after := false
		for _, in := range b.Instrs {
			if in == ssa.Instruction(x.(*ssa.UnOp)) {
				after = true
				continue
			}
			if after && isStore[in] {
				return false
			}
		}
		return (i == 0) == (bo.Op == token.NEQ)
	}
	reach := func(from ssa.Instruction) bool {
		b := from.Block()
		past := false
		for _, in := range b.Instrs {
			if in == from {
				past = true
				continue
			}
			if !past {
				continue
			}
			if in == ssa.Instruction(ld) {
				return true
			}
			if isStore[in] {
				return false
			}
		}
		seen := map[*ssa.BasicBlock]bool{}
		var stack []*ssa.BasicBlock
		leave := func(x *ssa.BasicBlock) {
			for i, s := range x.Succs {
				if !knownNonNil(x, i) {
					stack = append(stack, s)
				}
			}
		}
		leave(b)
		for len(stack) > 0 {
			x := stack[len(stack)-1]
			stack = stack[:len(stack)-1]
			if seen[x] {
				continue
			}
			seen[x] = true
			killed := false
			for _, in := range x.Instrs {
				if in == ssa.Instruction(ld) {
					return true
				}
				if isStore[in] {
					killed = true
					break
				}
			}
			if !killed {
				leave(x)
			}
		}
		return false
	}
	for _, d := range all {
		if reach(d.store) {
			defs = append(defs, d)
		}
	}
	return defs, reach(al), true
}

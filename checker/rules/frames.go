package rules

import (
	"go/constant"
	"go/token"
	"go/types"

	"golang.org/x/tools/go/ssa"

	"sheensverif/internal/flow"
	"sheensverif/internal/ssau"
)

// This file holds what a rule needs to judge a construct "in the frame of" an
// anchor function when the construct itself has been moved into a helper (or a
// helper of a helper): the branch facts under which the construct runs, seen
// from the anchor — the facts at the construct in its own function, the facts
// at the call that leads to it, and the callee's facts about its parameters
// restated about the arguments — and the way on from a helper's return into
// its callers.

// framePath is one way an instruction is reached from the root function.
type framePath struct {
	facts   []flow.Fact           // at the instruction, then at each call on the way up to the root (parameters restated as arguments)
	sites   []ssa.CallInstruction // the calls, innermost first
	inCycle bool                  // the instruction or one of the calls lies on a CFG cycle of its function
}

// paramIndexOf: the position of p among the parameters of its function.
func paramIndexOf(p *ssa.Parameter) int {
	for i, q := range p.Parent().Params {
		if q == p {
			return i
		}
	}
	return -1
}

// liftFacts restates the facts fs (values of the callee of site) about the
// caller's values: a fact on a parameter becomes a fact on the argument; a
// comparison whose operands are parameters and constants becomes the same
// comparison of the arguments.  Facts about anything else are dropped.
func liftFacts(fs []flow.Fact, site ssa.CallInstruction) []flow.Fact {
	args := site.Common().Args
	arg := func(v ssa.Value) ssa.Value {
		switch x := v.(type) {
		case *ssa.Const:
			return x
		case *ssa.Parameter:
			if i := paramIndexOf(x); i >= 0 && i < len(args) {
				return args[i]
			}
		}
		return nil
	}
	var out []flow.Fact
	for _, f := range fs {
		switch x := f.Cond.(type) {
		case *ssa.Parameter:
			if a := arg(x); a != nil {
				out = append(out, flow.Fact{Cond: a, True: f.True})
			}
		case *ssa.BinOp:
			_, xc := x.X.(*ssa.Const)
			_, yc := x.Y.(*ssa.Const)
			if xc && yc {
				continue
			}
			a, b := arg(x.X), arg(x.Y)
			if a != nil && b != nil {
				out = append(out, flow.Fact{Cond: &ssa.BinOp{Op: x.Op, X: a, Y: b}, True: f.True})
			}
		}
	}
	return flow.Expand(out)
}

// framePaths lists the ways the instruction is reached from root through
// static calls inside scope.  An instruction of root has one way; an
// instruction of a function that root does not reach statically has none.
func framePaths(in ssa.Instruction, root *ssa.Function, scope []*ssa.Function) []framePath {
	var rec func(in ssa.Instruction, depth int, on map[*ssa.Function]bool) []framePath
	rec = func(in ssa.Instruction, depth int, on map[*ssa.Function]bool) []framePath {
		fn := in.Parent()
		own := flow.FactsAt(in.Block())
		cyc := flow.InCycle(in.Block())
		if fn == root {
			return []framePath{{facts: own, inCycle: cyc}}
		}
		if depth > 6 || on[fn] {
			return nil
		}
		on[fn] = true
		defer delete(on, fn)
		var out []framePath
		for _, s := range callSitesOf(fn, scope) {
			for _, p := range rec(s, depth+1, on) {
				fs := append(append(append([]flow.Fact{}, own...), liftFacts(own, s)...), p.facts...)
				out = append(out, framePath{facts: fs, sites: append([]ssa.CallInstruction{s}, p.sites...), inCycle: cyc || p.inCycle})
			}
		}
		return out
	}
	return rec(in, 0, map[*ssa.Function]bool{})
}

// calledOnlyStatically: fn is unexported and every mention of it inside the
// given functions is the callee of a static call (it is not kept as a function
// or method value), so its callers are exactly its call sites.
func calledOnlyStatically(fn *ssa.Function, all []*ssa.Function) bool {
	if fn.Parent() != nil || fn.Object() == nil || fn.Object().Exported() {
		return false
	}
	ok := true
	for _, g := range all {
		ssau.Instrs(g, func(in ssa.Instruction) {
			var callee *ssa.Value
			if ci, isC := in.(ssa.CallInstruction); isC && !ci.Common().IsInvoke() {
				callee = &ci.Common().Value
			} else if isC && fn.Signature.Recv() != nil && ci.Common().Method.Name() == fn.Name() {
				ok = false // possibly reached through an interface
			}
			for _, op := range in.Operands(nil) {
				if op == nil || *op == nil {
					continue
				}
				if *op == ssa.Value(fn) && op != callee {
					ok = false
				}
			}
			if mc, isMC := in.(*ssa.MakeClosure); isMC {
				if w, isF := mc.Fn.(*ssa.Function); isF && w.Synthetic != "" {
					ssau.Instrs(w, func(in2 ssa.Instruction) {
						if ci, isC := in2.(ssa.CallInstruction); isC && ci.Common().StaticCallee() == fn {
							ok = false
						}
					})
				}
			}
		})
	}
	return ok
}

// returnFacts: what the caller knows about the results of the call site when
// the callee came back through ret: a constant result gives a fact on the
// call's value (or on the Extract of that result).
func returnFacts(site ssa.CallInstruction, ret *ssa.Return) []flow.Fact {
	val := site.Value()
	if val == nil {
		return nil
	}
	var out []flow.Fact
	for j, r := range ret.Results {
		cst, isC := r.(*ssa.Const)
		if !isC {
			continue
		}
		var vs []ssa.Value
		if len(ret.Results) == 1 {
			vs = []ssa.Value{val}
		} else {
			for _, u := range ssau.Referrers(val) {
				if ex, isEx := u.(*ssa.Extract); isEx && ex.Index == j {
					vs = append(vs, ex)
				}
			}
		}
		for _, v := range vs {
			switch {
			case cst.Value == nil:
				if _, isBasic := v.Type().Underlying().(*types.Basic); !isBasic {
					out = append(out, flow.Fact{Cond: &ssa.BinOp{Op: token.EQL, X: v, Y: cst}, True: true})
				}
			case cst.Value.Kind() == constant.Bool:
				out = append(out, flow.Fact{Cond: v, True: constant.BoolVal(cst.Value)})
			}
		}
	}
	return out
}

// coveredAfter: every execution that has passed position (b, idx) of fn with
// the facts fs holding passes one of the instructions marked by isRecord before
// the activation of fn — or, where fn is a helper whose callers are all known,
// of the caller it returns to — ends.
func coveredAfter(fn *ssa.Function, b *ssa.BasicBlock, idx int, fs []flow.Fact, isRecord func(ssa.Instruction) bool, all []*ssa.Function, depth int) bool {
	avoid := map[*ssa.BasicBlock]bool{}
	for _, blk := range fn.Blocks {
		for i, in := range blk.Instrs {
			if !isRecord(in) {
				continue
			}
			if blk == b {
				if i > idx {
					return true
				}
				continue
			}
			avoid[blk] = true
		}
	}
	reached := flow.ReachedUnderPhis(b, fs, avoid)
	var exits []*ssa.Return
	if ret, ok := b.Instrs[len(b.Instrs)-1].(*ssa.Return); ok {
		exits = append(exits, ret)
	}
	for _, blk := range fn.Blocks {
		if blk == b || !reached[blk] {
			continue
		}
		if ret, ok := blk.Instrs[len(blk.Instrs)-1].(*ssa.Return); ok {
			exits = append(exits, ret)
		}
	}
	if len(exits) == 0 {
		return true
	}
	if depth > 3 || !calledOnlyStatically(fn, all) {
		return false
	}
	sites := callSitesOf(fn, all)
	if len(sites) == 0 {
		return false
	}
	for _, s := range sites {
		if _, isCall := s.(*ssa.Call); !isCall {
			return false // go / defer: what follows the statement does not follow the helper
		}
		base := append(flow.StableFacts(flow.FactsAt(s.Block())), liftFacts(fs, s)...)
		for _, ret := range exits {
			cf := append(append([]flow.Fact{}, base...), returnFacts(s, ret)...)
			if !coveredAfter(s.Parent(), s.Block(), flow.Index(s), cf, isRecord, all, depth+1) {
				return false
			}
		}
	}
	return true
}

// valueWay is one way a value can come about: the defining leaf, the branch
// facts known to hold on that way, the blocks in which the way was chosen
// (the predecessor block of each phi edge taken, the return block of each
// helper the value came back from) and the calls of those helpers.
type valueWay struct {
	leaf   ssa.Value
	facts  []flow.Fact
	blocks []*ssa.BasicBlock
	calls  []*ssa.Call
}

// valueWays resolves v like sourcesWithFactsAt (phis, conversions, results of
// in-scope helpers with infeasible returns dropped, parameters of helpers back
// to the arguments at their call sites) and keeps where each way was chosen.
func valueWays(v ssa.Value, scope []*ssa.Function, base []flow.Fact) []valueWay {
	inScope := map[*ssa.Function]bool{}
	for _, f := range scope {
		inScope[f] = true
	}
	var out []valueWay
	// (every way is kept, also two ways to the same leaf: they differ in where they were chosen; a value already
	// on the way at hand — a loop-carried phi — is not entered again)
	onWay := map[ssa.Value]bool{}
	budget := 4000
	var rec func(v ssa.Value, w valueWay, depth int)
	rec = func(v ssa.Value, w valueWay, depth int) {
		if v == nil || depth > 12 || onWay[v] || budget <= 0 {
			return
		}
		budget--
		onWay[v] = true
		defer delete(onWay, v)
		with := func(extra []flow.Fact, b *ssa.BasicBlock, cl *ssa.Call) valueWay {
			n := valueWay{facts: append(append([]flow.Fact{}, w.facts...), extra...), blocks: append([]*ssa.BasicBlock{}, w.blocks...), calls: append([]*ssa.Call{}, w.calls...)}
			if b != nil {
				n.blocks = append(n.blocks, b)
			}
			if cl != nil {
				n.calls = append(n.calls, cl)
			}
			return n
		}
		follow := func(cl *ssa.Call, idx int) bool {
			sc := cl.Common().StaticCallee()
			if sc == nil || sc.Blocks == nil || !inScope[sc] {
				return false
			}
			known := flow.Expand(append(append([]flow.Fact{}, base...), w.facts...))
			for _, b := range sc.Blocks {
				if ret, ok := b.Instrs[len(b.Instrs)-1].(*ssa.Return); ok && idx < len(ret.Results) {
					if !feasibleReturn(cl, ret, known) {
						continue
					}
					// a result that is a phi of the return block itself is chosen on the edges into that block (they
					// are recorded when the phi is entered), not in the block where they join
					at := b
					if phi, isPhi := ret.Results[idx].(*ssa.Phi); isPhi && phi.Block() == b {
						at = nil
					}
					rec(ret.Results[idx], with(flow.FactsAt(b), at, cl), depth+1)
				}
			}
			return true
		}
		switch x := v.(type) {
		case *ssa.Phi:
			for i, e := range x.Edges {
				p := x.Block().Preds[i]
				rec(e, with(flow.EdgeFacts(p, x.Block()), p, nil), depth+1)
			}
			return
		case *ssa.ChangeType:
			rec(x.X, w, depth+1)
			return
		case *ssa.MakeInterface:
			rec(x.X, w, depth+1)
			return
		case *ssa.Call:
			if x.Common().Signature().Results().Len() == 1 && follow(x, 0) {
				return
			}
		case *ssa.Extract:
			if cl, ok := x.Tuple.(*ssa.Call); ok && follow(cl, x.Index) {
				return
			}
		case *ssa.Parameter:
			fn := x.Parent()
			idx := paramIndexOf(x)
			sites := callSitesOf(fn, scope)
			if idx >= 0 && len(sites) > 0 && len(scope) > 0 && fn != scope[0] {
				n := 0
				for _, s := range sites {
					if args := s.Common().Args; idx < len(args) {
						n++
						rec(args[idx], w, depth+1)
					}
				}
				if n > 0 {
					return
				}
			}
		}
		w.leaf = v
		out = append(out, w)
	}
	rec(v, valueWay{}, 0)
	return out
}

// errResultIndex: the index of fn's last result if that is an error, else -1.
func errResultIndex(fn *ssa.Function) int {
	rs := fn.Signature.Results()
	if rs.Len() == 0 {
		return -1
	}
	if n, ok := rs.At(rs.Len() - 1).Type().(*types.Named); ok && n.Obj().Pkg() == nil && n.Obj().Name() == "error" {
		return rs.Len() - 1
	}
	return -1
}

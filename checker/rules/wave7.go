package rules

import (
	"fmt"
	"go/types"
	"os"
	"strings"

	"golang.org/x/tools/go/ssa"

	"sheensverif/internal/flow"
	"sheensverif/internal/prog"
	"sheensverif/internal/pta"
	"sheensverif/internal/ssau"
)

// Rules added after the seventh probing wave.

// c04GuardErrorEnds: C04-R17 (= C07-R12, C11-R12).  A guard that fails — throws, times out, returns something that is
// not bindings — fails the step: the error of every guard execution in Branch.try (with its helpers) is handed on, the
// `err != nil` edge leads only to returns of a non-nil error.  A guard error that is merely noted lets a later branch be
// taken and the message be consumed with nothing surfaced, and a timeout is no longer reported.
func c04GuardErrorEnds(c *Ctx, rule string) {
	try := c.P.Func("core", "Branch", "try")
	if try == nil {
		c.R.Break(rule + ": core.(*Branch).try not found")
		return
	}
	scope := []*ssa.Function{try}
	for _, f := range pkgClosure(try) {
		if f != try && prog.PkgOf(f) == "core" {
			scope = append(scope, f)
		}
	}
	n := 0
	for _, f := range scope {
		ssau.Instrs(f, func(in ssa.Instruction) {
			cl, ok := in.(*ssa.Call)
			if !ok || !cl.Common().IsInvoke() || cl.Common().Method.Name() != "Exec" {
				return
			}
			isGuard := false
			for _, d := range deepDefs(cl.Common().Value, scope) {
				if _, is := isFieldLoad(d, "core", "Branch", "Guard"); is {
					isGuard = true
				}
			}
			if !isGuard {
				return
			}
			n++
			var errv ssa.Value
			for _, r := range ssau.Referrers(cl) {
				if ex, isEx := r.(*ssa.Extract); isEx && ex.Index == 1 {
					errv = ex
				}
			}
			okP := errv != nil && errPropagatedJoin(f, errv)
			// the helper that runs the guard may hand the error to its caller, which has to hand it on in turn
			for g, ev, depth := f, errv, 0; okP && g != try && depth < 4; depth++ {
				sites := callSitesOf(g, scope)
				if len(sites) == 0 {
					break
				}
				// which result of g carries the error
				ri := g.Signature.Results().Len() - 1
				for _, s := range sites {
					sc, isC := s.(*ssa.Call)
					if !isC {
						okP = false
						break
					}
					var e2 ssa.Value = sc
					if g.Signature.Results().Len() > 1 {
						e2 = nil
						for _, r := range ssau.Referrers(sc) {
							if ex, isEx := r.(*ssa.Extract); isEx && ex.Index == ri {
								e2 = ex
							}
						}
					}
					if e2 == nil || !errPropagatedJoin(sc.Parent(), e2) {
						okP = false
					}
					g, ev = sc.Parent(), e2
				}
				_ = ev
			}
			c.R.Check(okP, rule, fmt.Sprintf("%s: guard execution #%d: an error ends the step", fname(f), n), c.pos(cl), "the err != nil edge leads only to error returns, up to Branch.try", "the error of a guard execution is not handed on (it is only noted, and the next candidate or branch is tried): a guard that throws, times out or returns something that is not bindings is not surfaced as an error or an error-node transition, and the message is consumed by whatever branch comes next")
		})
	}
	if n == 0 {
		c.R.Break(rule + ": no guard execution found in Branch.try")
	}
}

// errPropagatedJoin: errPropagated, also when the error is first merged with the error of an alternative
// (`if g { bs, err = a() } else { bs, err = b() }; if err != nil { return err }`): the block that produced errv goes
// straight to the join, and none of the join's other incoming edges can be taken after errv was produced, so the merged
// value is errv whenever errv was produced, and the test on the merged value is the test on errv.
func errPropagatedJoin(fn *ssa.Function, errv ssa.Value) bool {
	if errv == nil {
		return false
	}
	if errPropagated(fn, errv) {
		return true
	}
	in, ok := errv.(ssa.Instruction)
	if !ok || in.Block() == nil {
		return false
	}
	from := in.Block()
	for _, r := range ssau.Referrers(errv) {
		phi, isPhi := r.(*ssa.Phi)
		if !isPhi || len(from.Succs) != 1 || from.Succs[0] != phi.Block() {
			continue
		}
		after := flow.ReachableFrom(phi.Block(), nil)
		sound := true
		for i, e := range phi.Edges {
			pred := phi.Block().Preds[i]
			if e == errv && pred == from {
				continue
			}
			if pred == from || after[pred] {
				sound = false
			}
		}
		if sound && errPropagated(fn, phi) {
			return true
		}
	}
	return false
}

// c04EngineIgnoresCtx: C04-R18 (= C05-R17, C11-R13).  Whether a step is taken, and what it does, does not depend on the
// state of the context: package core hands the context to actions and guards (which are stopped through it) and never
// looks at it itself.  An engine that returns early, skips error routing or stops waiting because the context has ended
// makes pure pattern matching fail under a cancelled context and routes a timeout differently from other errors.
func c04EngineIgnoresCtx(c *Ctx, rule string) {
	walk := c.P.Func("core", "Spec", "Walk")
	if walk == nil {
		c.R.Break(rule + ": core.(*Spec).Walk not found")
		return
	}
	bad := ""
	n := 0
	seen := map[*ssa.Function]bool{}
	for _, f := range append([]*ssa.Function{walk}, pkgClosure(walk)...) {
		if prog.PkgOf(f) != "core" {
			continue
		}
		for _, g := range ssau.WithAnon(f) {
			if seen[g] {
				continue
			}
			seen[g] = true
			n++
			ssau.Instrs(g, func(in ssa.Instruction) {
				ci, ok := in.(ssa.CallInstruction)
				if !ok || !ci.Common().IsInvoke() || ci.Common().Value.Type().String() != "context.Context" {
					return
				}
				switch ci.Common().Method.Name() {
				case "Err", "Done", "Deadline":
					bad = fname(g) + " calls ctx." + ci.Common().Method.Name() + "() (" + c.pos(in) + ")"
				}
			})
		}
	}
	c.R.Check(bad == "", rule, "core: the engine hands the context on and never consults it", c.P.Pos(walk.Pos()), fmt.Sprintf("%d functions of package core in Walk's closure, none calls Err, Done or Deadline on a context", n), bad+": what a step does then depends on whether the context has ended — a step that needs no action is refused, an action's failure skips the spec's error routing, or the call returns while the execution is still running")
}

// c16CrewNotCopied: C16-R2.  The crew's mutex guards the crew's map only if everybody locks the same mutex: a
// crew.Crew (which embeds the RWMutex) is never copied as a whole in cmd/mcrew — a copy has a mutex of its own and
// shares the Machines map.
func c16CrewNotCopied(c *Ctx, rule string) {
	isCrew := func(t types.Type) bool {
		n, ok := t.(*types.Named)
		return ok && n.Obj().Name() == "Crew" && n.Obj().Pkg() != nil && n.Obj().Pkg().Path() == prog.Abs("crew")
	}
	bad := ""
	n := 0
	for _, f := range c.P.FuncsIn("cmd/mcrew") {
		for _, g := range ssau.WithAnon(f) {
			n++
			for _, p := range g.Params {
				if isCrew(p.Type()) {
					bad = fname(g) + " takes a crew.Crew by value (" + c.P.Pos(g.Pos()) + ")"
				}
			}
			ssau.Instrs(g, func(in ssa.Instruction) {
				if u, ok := in.(*ssa.UnOp); ok && u.Op.String() == "*" && isCrew(u.Type()) {
					bad = fname(g) + " copies the crew (" + c.pos(in) + ")"
				}
			})
		}
	}
	c.R.Check(bad == "", rule, "cmd/mcrew: the crew (and its mutex) is never copied", "cmd/mcrew/service.go", fmt.Sprintf("%d functions examined, no load or by-value parameter of type crew.Crew", n), bad+": the copy's mutex is another mutex, so the function that locks it is no longer serialised with the others while it works on the same machine map")
}

// c15TimersChangeReported: C15-R13 (= C17-R10).  Every change of the set of pending timers is reported: in package sio
// each function that adds to or deletes from Timers.Map goes on, on every fact-consistent way to its return, to call
// Timers.changed (which records the timers machine's state as changed).  A timer that fired and left the map without
// that call stays in the store, and a crew rebuilt from the store fires it again.
func c15TimersChangeReported(c *Ctx, rule string) {
	// the report as a construct: the State of the change-cache entry for the timers machine (key TimersMachine)
	// receives the timers' state (a result of Timers.State).  The helper Timers.changed, where it exists, is just one
	// function that does this on every way from its entry.
	var tmKey types.Object
	if sp := c.P.ByPath[prog.Abs("sio")]; sp != nil && sp.Types != nil {
		tmKey = sp.Types.Scope().Lookup("TimersMachine")
	}
	tState := c.P.Func("sio", "Timers", "State")
	if tmKey == nil || tState == nil {
		c.R.Break(rule + ": sio.TimersMachine / sio.(*Timers).State not found")
		return
	}
	var all []*ssa.Function
	for _, f := range c.P.FuncsIn("sio") {
		all = append(all, ssau.WithAnon(f)...)
	}
	isReportStore := func(in ssa.Instruction) bool {
		st, ok := in.(*ssa.Store)
		if !ok || !ssau.IsField(st.Addr, prog.Abs("sio"), "Changed", "State") {
			return false
		}
		_, _, base, _ := ssau.FieldOf(st.Addr)
		k, isRec := changeRecordKey(base, 0)
		if !isRec {
			return false
		}
		// the key: the package's TimersMachine (a variable: a load of the global; were it a constant: its value)
		switch kx := k.(type) {
		case *ssa.UnOp:
			gl, isG := kx.X.(*ssa.Global)
			if !isG || kx.Op.String() != "*" || gl.Object() != tmKey {
				return false
			}
		case *ssa.Const:
			kc, isC := tmKey.(*types.Const)
			if !isC || kx.Value == nil || kx.Value.ExactString() != kc.Val().ExactString() {
				return false
			}
		default:
			return false
		}
		cl, isCall := st.Val.(*ssa.Call)
		return isCall && cl.Common().StaticCallee() == tState
	}
	// a helper that always reports (on every way from its entry it makes the report, itself or through such a helper)
	alwaysMemo := map[*ssa.Function]bool{}
	var always func(h *ssa.Function, depth int) bool
	always = func(h *ssa.Function, depth int) bool {
		if h == nil || h.Blocks == nil || depth > 3 || prog.PkgOf(h) != "sio" {
			return false
		}
		if v, ok := alwaysMemo[h]; ok {
			return v
		}
		pd := flow.NewPostDom(h)
		res := false
		ssau.Instrs(h, func(in2 ssa.Instruction) {
			if res || in2.Parent() != h || !(in2.Block() == h.Blocks[0] || pd.PostDominates(in2.Block(), h.Blocks[0])) {
				return
			}
			if isReportStore(in2) {
				res = true
				return
			}
			c2, ok2 := in2.(*ssa.Call)
			if !ok2 {
				return
			}
			if sc := c2.Common().StaticCallee(); sc != nil && sc != h && always(sc, depth+1) {
				res = true
			}
		})
		if depth == 0 {
			alwaysMemo[h] = res
		}
		return res
	}
	reports := func(in ssa.Instruction, g *ssa.Function) bool {
		if isReportStore(in) {
			return true
		}
		ci, ok := in.(*ssa.Call)
		if !ok {
			return false
		}
		h := ci.Common().StaticCallee()
		return h != nil && h != g && always(h, 0)
	}
	// reportedAfter: every fact-consistent way on from instruction `at` of g (the facts fs hold there) passes a report;
	// where a way leaves g without one, the obligation goes to the callers of g: the ways that leave g unreported imply
	// a value of a bool result of g, and at every call site every way on from the site on which the result has that
	// value passes a report.
	var reportedAfter func(g *ssa.Function, at ssa.Instruction, fs []flow.Fact, depth int) bool
	reportedAfter = func(g *ssa.Function, at ssa.Instruction, fs []flow.Fact, depth int) bool {
		blk := at.Block()
		for _, in := range blk.Instrs[flow.Index(at)+1:] {
			if reports(in, g) {
				return true
			}
		}
		avoid := map[*ssa.BasicBlock]bool{}
		ssau.Instrs(g, func(in ssa.Instruction) {
			if in.Parent() == g && reports(in, g) {
				avoid[in.Block()] = true
			}
		})
		reached := flow.ReachedUnderPhis(blk, fs, avoid)
		var exits []*ssa.Return
		if r, ok := blk.Instrs[len(blk.Instrs)-1].(*ssa.Return); ok {
			exits = append(exits, r)
		}
		for _, b := range g.Blocks {
			if r, ok := b.Instrs[len(b.Instrs)-1].(*ssa.Return); ok && reached[b] && b != blk {
				exits = append(exits, r)
			}
		}
		if len(exits) == 0 {
			return true
		}
		if depth >= 3 {
			return false
		}
		// the value of a bool result that the unreported exits imply
		var eval func(v ssa.Value, ret *ssa.Return, d int) (bool, bool)
		eval = func(v ssa.Value, ret *ssa.Return, d int) (bool, bool) {
			if d > 4 {
				return false, false
			}
			if cst, ok := v.(*ssa.Const); ok && cst.Value != nil && types.Identical(cst.Type().Underlying(), types.Typ[types.Bool]) {
				return cst.Value.String() == "true", true
			}
			for _, f := range fs {
				switch flow.CondRel(v, f.Cond) {
				case 1:
					return f.True, true
				case -1:
					return !f.True, true
				}
			}
			switch x := v.(type) {
			case *ssa.UnOp:
				if x.Op.String() == "!" {
					if val, known := eval(x.X, ret, d+1); known {
						return !val, true
					}
				}
			case *ssa.Phi:
				if x.Block() != ret.Block() {
					return false, false
				}
				n, val := 0, false
				for i, p := range x.Block().Preds {
					if p != blk && !reached[p] {
						continue
					}
					// an edge that the facts rule out (the branch at the end of p is decided the other way) delivers nothing
					if iff, isIf := p.Instrs[len(p.Instrs)-1].(*ssa.If); isIf && len(p.Succs) == 2 && p.Succs[0] != p.Succs[1] {
						if cv, ck := eval(iff.Cond, ret, d+1); ck {
							taken := p.Succs[1]
							if cv {
								taken = p.Succs[0]
							}
							if taken != x.Block() {
								continue
							}
						}
					}
					v2, known := eval(x.Edges[i], ret, d+1)
					if !known || (n > 0 && v2 != val) {
						return false, false
					}
					n, val = n+1, v2
				}
				return val, n > 0
			}
			return false, false
		}
		ri, rv := -1, false
		res := g.Signature.Results()
		for i := 0; i < res.Len() && ri < 0; i++ {
			if !types.Identical(res.At(i).Type().Underlying(), types.Typ[types.Bool]) {
				continue
			}
			okAll, val := true, false
			for k, ret := range exits {
				v2, known := eval(ret.Results[i], ret, 0)
				if !known || (k > 0 && v2 != val) {
					okAll = false
					break
				}
				val = v2
			}
			if okAll {
				ri, rv = i, val
			}
		}
		// g must only be used by static calls
		asValue := false
		for _, k := range all {
			ssau.Instrs(k, func(in ssa.Instruction) {
				for _, op := range in.Operands(nil) {
					if *op == nil {
						continue
					}
					if *op == ssa.Value(g) {
						if cl, ok := in.(*ssa.Call); !ok || cl.Common().Value != ssa.Value(g) {
							asValue = true
						}
					} else if w, ok := (*op).(*ssa.Function); ok && w.Synthetic != "" && w.Object() != nil && w.Object() == g.Object() {
						asValue = true // a method value of g
					}
				}
			})
		}
		if asValue {
			return false
		}
		sites := callSitesOf(g, all)
		if len(sites) == 0 {
			return false
		}
		for _, site := range sites {
			cl, ok := site.(*ssa.Call)
			if !ok {
				return false
			}
			facts := flow.StableFacts(flow.FactsAt(cl.Block()))
			if ri >= 0 {
				var rval ssa.Value
				if res.Len() == 1 {
					rval = cl
				} else if cl.Referrers() != nil {
					for _, r := range *cl.Referrers() {
						if ex, isE := r.(*ssa.Extract); isE && ex.Index == ri {
							rval = ex
						}
					}
				}
				if rval != nil {
					facts = append(facts, flow.Fact{Cond: rval, True: rv})
				}
			}
			if !reportedAfter(cl.Parent(), cl, facts, depth+1) {
				return false
			}
		}
		return true
	}
	n := 0
	for _, g := range all {
		var calls []*ssa.BasicBlock
		ssau.Instrs(g, func(in ssa.Instruction) {
			if in.Parent() != g {
				return
			}
			if reports(in, g) {
				// the report itself, or a helper that always reports
				calls = append(calls, in.Block())
			}
		})
		ssau.Instrs(g, func(in ssa.Instruction) {
			if in.Parent() != g {
				return
			}
			isWrite := false
			switch x := in.(type) {
			case *ssa.MapUpdate:
				_, isWrite = ssau.LoadOfField(x.Map, prog.Abs("sio"), "Timers", "Map")
			case ssa.CallInstruction:
				if b, isB := x.Common().Value.(*ssa.Builtin); isB && b.Name() == "delete" {
					_, isWrite = ssau.LoadOfField(x.Common().Args[0], prog.Abs("sio"), "Timers", "Map")
				}
			}
			if !isWrite {
				return
			}
			n++
			covered := false
			for _, cb := range calls {
				if cb == in.Block() || flow.CoveredBy(in.Block(), cb) {
					covered = true
				}
			}
			if !covered {
				// the report is made by the callers, after the helper that writes has returned
				covered = reportedAfter(g, in, flow.StableFacts(flow.FactsAt(in.Block())), 0)
			}
			c.R.Check(covered, rule, fmt.Sprintf("%s: change #%d of the pending timers is reported", fname(g), n), c.pos(in), "followed by Timers.changed() on every way on", "the set of pending timers is changed here without Timers.changed() being called afterwards: the reported state of the timers machine keeps a timer that is gone (or lacks one that was added), so a crew rebuilt from the store fires it again (or never)")
		})
	}
	if n == 0 {
		c.R.Break(rule + ": no write to Timers.Map found in package sio")
	}
}

// c13UnknownSyntaxAlways: C13-R4.  An unknown pattern syntax is rejected whatever the pattern looks like: exploring the
// default pattern parser from its entry under the assumption that the syntax equals none of the constants it is compared
// with, every return that is reached is an error return.
func c13UnknownSyntaxAlways(c *Ctx, rule string) {
	pf := defaultPatternParserFn(c)
	if pf == nil || len(pf.Params) < 1 {
		return // reported by C13-R1
	}
	syn := ssa.Value(pf.Params[0])
	ncmp := 0
	okAll := true
	bad := ""
	// the assumption: every comparison of the syntax with a constant fails.  Conditions are evaluated under it, so
	// that a comparison may be computed into a variable first (`verbatim := syntax == "none" || syntax == ""`)
	sc := newScenario([]*ssa.Function{pf})
	cmpAt := map[*ssa.BasicBlock]int{}
	ssau.Instrs(pf, func(in ssa.Instruction) {
		bo, isB := in.(*ssa.BinOp)
		if !isB || (bo.X != syn && bo.Y != syn) {
			return
		}
		other := bo.Y
		if bo.Y == syn {
			other = bo.X
		}
		if _, isC := other.(*ssa.Const); !isC {
			return
		}
		switch bo.Op.String() {
		case "==":
			sc.vals[bo] = false
			cmpAt[bo.Block()]++
		case "!=":
			sc.vals[bo] = true
			cmpAt[bo.Block()]++
		}
	})
	seen := map[*ssa.BasicBlock]bool{pf.Blocks[0]: true}
	stack := []*ssa.BasicBlock{pf.Blocks[0]}
	for len(stack) > 0 {
		x := stack[len(stack)-1]
		stack = stack[:len(stack)-1]
		ncmp += cmpAt[x]
		last := x.Instrs[len(x.Instrs)-1]
		if ret, isRet := last.(*ssa.Return); isRet {
			if !returnsErr(x, nil) {
				okAll = false
				bad = c.pos(ret)
			}
			continue
		}
		succs := x.Succs
		if iff, isIf := last.(*ssa.If); isIf {
			switch sc.eval(iff.Cond, nil, 0) {
			case triTrue:
				succs = x.Succs[:1]
			case triFalse:
				succs = x.Succs[1:2]
			}
		}
		for _, y := range succs {
			if !seen[y] {
				seen[y] = true
				stack = append(stack, y)
			}
		}
	}
	c.R.Check(okAll && ncmp >= 2, rule, "DefaultPatternParser: an unknown syntax is rejected for every pattern", c.P.Pos(pf.Pos()), fmt.Sprintf("with the syntax equal to none of the %d constants it is compared with, only error returns are reachable", ncmp), "the default pattern parser can return successfully ("+bad+") for a syntax it does not know (say for a pattern that is not text): a spec that declares a misspelt syntax compiles, and whether it does depends on how its patterns are written")
}

// c08ResultKinds: C08-R9 (= C07-R13).  "An action that returns something that is not bindings fails": after the run the
// interpreter accepts the script's result as bindings only if it is nothing (nil), a map, or bindings.  A comma-ok
// assertion of the exported result to a scalar type (bool, string, number) whose ok-edge reaches a successful return
// widens what counts as success: an action written like a guard then completes, and its emissions are reported.
func c08ResultKinds(c *Ctx, rule string) {
	exec := c.P.Func("interpreters/ecmascript", "Interpreter", "Exec")
	if exec == nil {
		c.R.Break(rule + ": Interpreter.Exec not found")
		return
	}
	var fns []*ssa.Function
	for _, f := range append([]*ssa.Function{exec}, pkgClosure(exec)...) {
		if prog.PkgOf(f) == "interpreters/ecmascript" && f.Parent() == nil {
			fns = append(fns, f)
		}
	}
	// the script's result: what running the program gave (RunProgram), or the export of such a value — not the
	// export of anything else (the arguments of the functions the environment offers are exported too).  Read
	// through local variables, fields of local records, helper parameters and results.
	var fromRun func(v ssa.Value, depth int) bool
	fromRun = func(v ssa.Value, depth int) bool {
		if depth > 4 {
			return false
		}
		for _, d := range deepDefsCells(v, fns) {
			var cl *ssa.Call
			switch x := d.(type) {
			case *ssa.Call:
				cl = x
			case *ssa.Extract:
				cl, _ = x.Tuple.(*ssa.Call)
			}
			if cl == nil {
				continue
			}
			name := ssau.CalleeName(cl)
			if strings.Contains(name, "RunProgram") {
				return true
			}
			if strings.Contains(name, "xport") {
				ops := append([]ssa.Value{}, cl.Common().Args...)
				if cl.Common().IsInvoke() {
					ops = append(ops, cl.Common().Value)
				}
				for _, a := range ops {
					if fromRun(a, depth+1) {
						return true
					}
				}
			}
		}
		return false
	}
	isResult := func(v ssa.Value) bool { return fromRun(v, 0) }
	n := 0
	var bad []string
	for _, f := range fns {
		ssau.Instrs(f, func(in ssa.Instruction) {
			ta, ok := in.(*ssa.TypeAssert)
			if !ok || !isResult(ta.X) {
				return
			}
			n++
			bt, isBasic := ta.AssertedType.Underlying().(*types.Basic)
			if !isBasic {
				return
			}
			// does the ok edge reach a return with a nil error?
			for _, b := range f.Blocks {
				ret, isRet := b.Instrs[len(b.Instrs)-1].(*ssa.Return)
				if !isRet || len(ret.Results) == 0 || !provablyNil(ret.Results[len(ret.Results)-1], b) {
					continue
				}
				for _, ft := range flow.Expand(flow.FactsAt(b)) {
					if ex, isEx := ft.Cond.(*ssa.Extract); isEx && ex.Tuple == ssa.Value(ta) && ex.Index == 1 && ft.True {
						bad = append(bad, fmt.Sprintf("a result of type %s is accepted (%s)", bt.Name(), c.pos(ret)))
					}
				}
				// a type switch: the case block itself
				if ta.CommaOk {
					for _, r := range ssau.Referrers(ta) {
						if ex, isEx := r.(*ssa.Extract); isEx && ex.Index == 1 {
							for _, r2 := range ssau.Referrers(ex) {
								if iff, isIf := r2.(*ssa.If); isIf && blockReaches(iff.Block().Succs[0], b) {
									bad = append(bad, fmt.Sprintf("a result of type %s is accepted (%s)", bt.Name(), c.pos(ret)))
								}
							}
						}
					}
				}
			}
		})
	}
	if n == 0 {
		c.R.Break(rule + ": no type test of the script's result found in the interpreter")
		return
	}
	if len(bad) > 1 {
		bad = bad[:1]
	}
	c.R.Check(len(bad) == 0, rule, "Exec: only nothing, a map or bindings count as returned bindings", c.P.Pos(exec.Pos()), fmt.Sprintf("%d type tests of the script's result; no scalar type leads to a successful return", n), strings.Join(bad, "; ")+": code that returns a scalar no longer fails — an action that emits and then returns true or false completes, its output is reported and the machine moves on")
}

// c14RoutedAsIs: C14-R11 (= C02-R16).  A machine is walked exactly when it was selected and exists, and it is shown the
// message as it was routed: in sio.RunMachines the only condition on the walk of a selected id is that the machine is
// there, and the batch RunMachine hands to Walk holds the message parameter itself — not an edited copy.
func c14RoutedAsIs(c *Ctx, rule string) {
	rms := c.P.Func("sio", "Crew", "RunMachines")
	rm := c.P.Func("sio", "Crew", "RunMachine")
	walk := c.P.Func("core", "Spec", "Walk")
	if rms == nil || rm == nil || walk == nil {
		c.R.Break(rule + ": sio RunMachines / RunMachine or core Walk not found")
		return
	}
	scope := []*ssa.Function{rms}
	for _, f := range pkgClosure(rms) {
		if f != rms && f != rm && prog.PkgOf(f) == "sio" && !inClosure(rm, f) {
			scope = append(scope, f)
		}
	}
	n := 0
	for _, f := range scope {
		ssau.Instrs(f, func(in ssa.Instruction) {
			cl, ok := in.(*ssa.Call)
			if !ok || cl.Common().StaticCallee() != rm {
				return
			}
			n++
			var bad []string
			site := ssa.Instruction(cl)
			for g := f; ; {
				for _, ft := range flow.FactsAt(site.Block()) {
					okF := false
					switch x := ft.Cond.(type) {
					case *ssa.Extract:
						if lk, isLk := x.Tuple.(*ssa.Lookup); isLk && x.Index == 1 {
							if _, is := ssau.LoadOfField(lk.X, prog.Abs("sio"), "Crew", "Machines"); is {
								okF = true
							}
						}
					case *ssa.BinOp:
						// the loop condition of a counted loop over the selected ids
						if isLenOf(x.X) || isLenOf(x.Y) {
							okF = true
						}
						// routing itself failed: nothing was selected
						if x.X.Type().String() == "error" && provablyNil(x.Y, ft.If.Block()) && ((x.Op.String() == "!=" && !ft.True) || (x.Op.String() == "==" && ft.True)) {
							okF = true
						}
					}
					if !okF {
						bad = append(bad, ft.Cond.String()+" ("+c.pos(ft.If)+")")
					}
				}
				if g == rms {
					break
				}
				sites := callSitesOf(g, scope)
				if len(sites) != 1 {
					break
				}
				site, g = sites[0], sites[0].Parent()
			}
			c.R.Check(len(bad) == 0, rule, fmt.Sprintf("%s: a selected machine that exists is walked #%d", fname(f), n), c.pos(cl), "the only condition on RunMachine is that the id is in Crew.Machines", "whether a selected machine is shown the message also depends on "+strings.Join(bad, ", ")+": a machine the message is addressed to may never see it")
		})
	}
	if n == 0 {
		c.R.Break(rule + ": RunMachines does not call RunMachine")
	}
	// the batch
	rscope := []*ssa.Function{rm}
	for _, f := range pkgClosure(rm) {
		if f != rm && prog.PkgOf(f) == "sio" {
			rscope = append(rscope, f)
		}
	}
	var msgParam *ssa.Parameter
	for _, p := range rm.Params {
		if it, ok := p.Type().Underlying().(*types.Interface); ok && it.NumMethods() == 0 {
			msgParam = p
		}
	}
	nb := 0
	for _, f := range rscope {
		ssau.Instrs(f, func(in ssa.Instruction) {
			cl, ok := in.(*ssa.Call)
			if !ok {
				return
			}
			isWalk := cl.Common().StaticCallee() == walk
			if cl.Common().IsInvoke() && cl.Common().Method.Name() == "Walk" {
				isWalk = true
			}
			if !isWalk || msgParam == nil {
				return
			}
			for _, a := range cl.Common().Args {
				sl, isSl := a.Type().Underlying().(*types.Slice)
				if !isSl || !types.IsInterface(sl.Elem()) {
					continue
				}
				nb++
				okB := true
				elems := sliceElems(a, rscope)
				if len(elems) == 0 {
					// the batch may be kept in a field of a local record on its way to Walk
					for _, sd := range resolveThroughLocals(a, rscope) {
						if sd != a {
							elems = append(elems, sliceElems(sd, rscope)...)
						}
					}
				}
				if len(elems) == 0 {
					okB = false
				}
				for _, e := range elems {
					same := false
					for _, d := range resolveThroughLocals(e, rscope) {
						if d == ssa.Value(msgParam) {
							same = true
						}
					}
					if !same {
						okB = false
					}
				}
				c.R.Check(okB, rule, fmt.Sprintf("RunMachine: the machine is shown the routed message itself #%d", nb), c.pos(cl), "the batch handed to Walk holds RunMachine's message parameter", "the batch handed to Walk does not hold the message as it was routed (an edited copy, say without its routing key): a branch pattern that mentions what was removed has an instance in the message the crew was given but is not followed")
			}
		})
	}
	if nb == 0 {
		c.R.Break(rule + ": RunMachine does not hand a batch of messages to Walk")
	}
}

// isLenOf reports whether v is len(of a slice).
func isLenOf(v ssa.Value) bool {
	cl, ok := v.(*ssa.Call)
	if !ok {
		return false
	}
	b, isB := cl.Common().Value.(*ssa.Builtin)
	if !isB || b.Name() != "len" {
		return false
	}
	_, isSl := cl.Common().Args[0].Type().Underlying().(*types.Slice)
	return isSl
}

// blockReaches reports whether control can pass from block a to block b.
func blockReaches(a, b *ssa.BasicBlock) bool {
	seen := map[*ssa.BasicBlock]bool{}
	work := []*ssa.BasicBlock{a}
	for len(work) > 0 {
		x := work[len(work)-1]
		work = work[:len(work)-1]
		if x == b {
			return true
		}
		if seen[x] {
			continue
		}
		seen[x] = true
		work = append(work, x.Succs...)
	}
	return false
}

// c01NoArithmetic: a pattern number matches the same number and no other, so
// the matcher has no business computing with floating-point values: every
// float64 it sees is a pattern or message leaf (or the bound of an
// inequality), and all it may do with them is compare them.  An arithmetic
// operation on floats, or a call into package math, is how a tolerance, a
// rounding or a normalisation gets in.
func c01NoArithmetic(c *Ctx, rule string, fns []*ssa.Function) {
	isFloat := func(t types.Type) bool {
		b, ok := t.Underlying().(*types.Basic)
		return ok && b.Info()&types.IsFloat != 0
	}
	var bad []string
	n := 0
	for _, f := range fns {
		if prog.PkgOf(f) != "match" {
			continue
		}
		n++
		ssau.Instrs(f, func(in ssa.Instruction) {
			switch x := in.(type) {
			case *ssa.BinOp:
				switch x.Op.String() {
				case "+", "-", "*", "/":
					if isFloat(x.X.Type()) {
						bad = append(bad, fmt.Sprintf("%s computes %s on numbers (%s)", fname(f), x.Op, c.pos(in)))
					}
				}
			case *ssa.UnOp:
				if x.Op.String() == "-" && isFloat(x.X.Type()) {
					bad = append(bad, fmt.Sprintf("%s negates a number (%s)", fname(f), c.pos(in)))
				}
			case ssa.CallInstruction:
				if callee := x.Common().StaticCallee(); callee != nil && callee.Pkg != nil && callee.Pkg.Pkg.Path() == "math" {
					bad = append(bad, fmt.Sprintf("%s calls %s (%s)", fname(f), callee.Name(), c.pos(in)))
				}
			}
		})
	}
	if n == 0 {
		c.R.Break(rule + ": no function of package match in the matcher's closure")
		return
	}
	if len(bad) > 2 {
		bad = bad[:2]
	}
	c.R.Check(len(bad) == 0, rule, "match: numbers are only compared", "match/match.go", fmt.Sprintf("%d functions of the matcher: no arithmetic on floating-point values and no call into package math", n), strings.Join(bad, "; ")+": a pattern number then matches numbers other than itself (or fails to match itself)")
}

// c09HostMadeMessages: a message a coupling of cmd/mcrew builds itself and
// hands to Service.Process is plain JSON data.  What it builds is followed
// from the call's message argument: a map made on the way (and any map stored
// into it) only holds values boxed from the Go types JSON decodes to.
func c09HostMadeMessages(c *Ctx, rule string) {
	process := c.P.Func("cmd/mcrew", "Service", "Process")
	if process == nil {
		c.R.Break(rule + ": cmd/mcrew Service.Process not found")
		return
	}
	scope := c.P.FuncsIn("cmd/mcrew")
	jsonShaped := func(t types.Type) (bool, string) {
		s := types.TypeString(t, func(p *types.Package) string { return p.Name() })
		switch s {
		case "string", "float64", "bool", "map[string]interface{}", "[]interface{}", "map[string]any", "[]any":
			return true, s
		}
		return false, s
	}
	n := 0
	perFn := map[*ssa.Function]int{}
	for _, f := range scope {
		ssau.Instrs(f, func(in ssa.Instruction) {
			ci, ok := in.(ssa.CallInstruction)
			if !ok || ci.Common().StaticCallee() != process || len(ci.Common().Args) < 3 {
				return
			}
			n++
			perFn[f]++
			var bad []string
			made := 0
			seen := map[ssa.Value]bool{}
			var visit func(v ssa.Value, depth int)
			visit = func(v ssa.Value, depth int) {
				if depth > 4 {
					return
				}
				for _, d := range deepDefs(v, scope) {
					d = stripIface(d)
					if seen[d] {
						continue
					}
					seen[d] = true
					// a local that is filled in place (decoded into, or assigned)
					if ld, isLd := d.(*ssa.UnOp); isLd {
						if al, isAl := ld.X.(*ssa.Alloc); isAl {
							for _, r := range ssau.Referrers(al) {
								if st, isSt := r.(*ssa.Store); isSt && st.Addr == ssa.Value(al) {
									visit(st.Val, depth+1)
								}
							}
						}
					}
					var stores []ssa.Value
					switch d.(type) {
					case *ssa.MakeMap, *ssa.MakeSlice:
						made++
					}
					for _, r := range ssau.Referrers(d) {
						switch x := r.(type) {
						case *ssa.MapUpdate:
							if x.Map == d {
								stores = append(stores, x.Value)
							}
						}
					}
					if al, isAl := d.(*ssa.Alloc); isAl {
						// an array behind a slice literal
						for _, r := range ssau.Referrers(al) {
							if ia, isIA := r.(*ssa.IndexAddr); isIA {
								for _, r2 := range ssau.Referrers(ia) {
									if st, isSt := r2.(*ssa.Store); isSt && st.Addr == ssa.Value(ia) {
										stores = append(stores, st.Val)
									}
								}
							}
						}
					}
					for _, sv := range stores {
						if mi, isMI := sv.(*ssa.MakeInterface); isMI {
							if okT, ts := jsonShaped(mi.X.Type()); !okT {
								bad = append(bad, fmt.Sprintf("a %s (%s)", ts, c.posv(mi)))
								continue
							}
						}
						visit(sv, depth+1)
					}
				}
			}
			visit(ci.Common().Args[len(ci.Common().Args)-2], 0)
			if len(bad) > 2 {
				bad = bad[:2]
			}
			c.R.Check(len(bad) == 0, rule, fmt.Sprintf("%s: message #%d handed to Service.Process", fname(f), perFn[f]), c.pos(in), fmt.Sprintf("what the coupling builds of it (%d containers) only holds values of the Go types JSON decodes to", made), "the message holds "+strings.Join(bad, ", ")+": not the Go type the same JSON decodes to, so a machine that binds it has a state that matches differently once it has been written out and read back")
		})
	}
	if n < 3 {
		c.R.Break(fmt.Sprintf("%s: expected the couplings of cmd/mcrew to call Service.Process, found %d call sites", rule, n))
	}
}

// c15ReportNotTrimmed: what GetChanged has put in its report stays there.  An
// entry leaves the report only as a duplicate (under the equality of its
// serialised form with the last one reported), and no field of an entry is
// cleared: a state or spec source withheld from the report is a change the
// store never sees.
func c15ReportNotTrimmed(c *Ctx, rule string) {
	getC := c.P.Func("sio", "Crew", "GetChanged")
	if getC == nil {
		c.R.Break(rule + ": sio Crew.GetChanged not found")
		return
	}
	var scope []*ssa.Function
	for _, f := range append([]*ssa.Function{getC}, pkgClosure(getC)...) {
		if prog.PkgOf(f) == "sio" {
			scope = append(scope, f)
		}
	}
	isReport := func(t types.Type) bool {
		m, ok := t.Underlying().(*types.Map)
		if !ok {
			return false
		}
		p, isP := m.Elem().(*types.Pointer)
		if !isP {
			return false
		}
		n, isN := p.Elem().(*types.Named)
		return isN && n.Obj().Name() == "Changed" && n.Obj().Pkg() != nil && n.Obj().Pkg().Path() == prog.Abs("sio")
	}
	// dupFact: among the facts is the equality of two strings (the serialised form and the one last reported), as
	// such or as what the true result of a helper of package sio implies (`repeated, err := c.seenBefore(mid, ch)`).
	var dupFact func(fs []flow.Fact, depth int) bool
	dupFact = func(fs []flow.Fact, depth int) bool {
		for _, ft := range fs {
			if bo, ok := ft.Cond.(*ssa.BinOp); ok && bo.Op.String() == "==" && ft.True {
				if bt, isB := bo.X.Type().Underlying().(*types.Basic); isB && bt.Kind() == types.String {
					return true
				}
			}
		}
		if depth >= 3 {
			return false
		}
		for _, ft := range fs {
			cond, pol := ft.Cond, ft.True
			if u, ok := cond.(*ssa.UnOp); ok && u.Op.String() == "!" {
				cond, pol = u.X, !pol
			}
			if !pol {
				continue
			}
			var cl *ssa.Call
			ri := 0
			switch x := cond.(type) {
			case *ssa.Call:
				cl = x
			case *ssa.Extract:
				cl, _ = x.Tuple.(*ssa.Call)
				ri = x.Index
			}
			if cl == nil {
				continue
			}
			h := cl.Common().StaticCallee()
			if h == nil || prog.PkgOf(h) != "sio" {
				continue
			}
			if trueImplies(h, ri, func(b *ssa.BasicBlock, extra []flow.Fact) bool {
				return dupFact(append(flow.FactsAt(b), extra...), depth+1)
			}) {
				return true
			}
		}
		return false
	}
	nd, ns := 0, 0
	for _, f := range scope {
		ssau.Instrs(f, func(in ssa.Instruction) {
			switch x := in.(type) {
			case ssa.CallInstruction:
				b, isB := x.Common().Value.(*ssa.Builtin)
				if !isB || b.Name() != "delete" || !isReport(x.Common().Args[0].Type()) {
					return
				}
				if _, is := ssau.LoadOfField(x.Common().Args[0], prog.Abs("sio"), "Crew", "changed"); is {
					return // the cache being drained, not the report
				}
				nd++
				dup := dupFact(flow.FactsAt(in.Block()), 0)
				c.R.Check(dup, rule, fmt.Sprintf("%s: entry #%d taken out of the report", fname(f), nd), c.pos(in), "only under the equality of its serialised form with the last one reported", "an entry is taken out of the report without being a duplicate of what was last reported: that change never reaches the store")
			case *ssa.Store:
				fa, ok := x.Addr.(*ssa.FieldAddr)
				if !ok {
					return
				}
				for _, fld := range []string{"State", "SpecSrc"} {
					if ssau.IsField(fa, prog.Abs("sio"), "Changed", fld) {
						ns++
						c.R.Check(!provablyNil(x.Val, x.Block()), rule, fmt.Sprintf("%s: Changed.%s assignment #%d", fname(f), fld, ns), c.pos(in), "a value is assigned, the field is not cleared", "Changed."+fld+" is cleared on the way to the report: that change never reaches the store")
					}
				}
			}
		})
	}
	if nd == 0 || ns < 2 {
		c.R.Break(fmt.Sprintf("%s: expected GetChanged to fill State and SpecSrc and to drop duplicates, found %d assignments and %d deletions", rule, ns, nd))
	}
}

// rootCell follows a captured variable back to the Alloc that holds it.
func rootCell(cell ssa.Value) ssa.Value {
	for i := 0; i < 6; i++ {
		fv, ok := cell.(*ssa.FreeVar)
		if !ok {
			return cell
		}
		fn := fv.Parent()
		if fn == nil || fn.Parent() == nil {
			return cell
		}
		var next ssa.Value
		ssau.Instrs(fn.Parent(), func(in ssa.Instruction) {
			if mc, isMC := in.(*ssa.MakeClosure); isMC && mc.Fn == ssa.Value(fn) {
				if b := bindingOf(mc, fv); b != nil {
					next = b
				}
			}
		})
		if next == nil {
			return cell
		}
		cell = next
	}
	return cell
}

// c19SuccessOnlyAfterSuccess: the value that counts as a completion signal of
// a step (identified as the one sent where a worker's verdict was "no error")
// is sent only by the step's workers (the functions started with go, and
// helpers only they call), and never where the worker's error is known to be
// non-nil.  In particular the timeout's callback cannot send it: a step
// whose expected message never arrived does not pass because time ran out.
func c19SuccessOnlyAfterSuccess(c *Ctx, rule string) {
	run := c.P.Func("tools/expect", "Session", "Run")
	if run == nil {
		c.R.Break(rule + ": tools/expect Session.Run not found")
		return
	}
	var scope []*ssa.Function
	inScope := map[*ssa.Function]bool{}
	var add func(f *ssa.Function)
	add = func(f *ssa.Function) {
		if inScope[f] {
			return
		}
		inScope[f] = true
		scope = append(scope, f)
		for _, a := range f.AnonFuncs {
			add(a)
		}
	}
	add(run)
	for _, h := range pkgClosure(run) {
		if prog.PkgOf(h) == "tools/expect" && h.Blocks != nil {
			add(h)
		}
	}
	// what a sent value is: the variables (cells), fields or other definitions it resolves to
	rootsOf := func(v ssa.Value) []interface{} {
		var out []interface{}
		for _, d := range resolveThroughLocals(v, scope) {
			if cell := cellOf(d); cell != nil {
				out = append(out, rootCell(cell))
				continue
			}
			if ld, isLd := d.(*ssa.UnOp); isLd {
				if fa, isFA := ld.X.(*ssa.FieldAddr); isFA {
					if named, fld, _, ok := ssau.FieldOf(fa); ok && named != nil {
						out = append(out, named.Obj().Name()+"."+fld)
						continue
					}
				}
			}
			if _, isC := d.(*ssa.Const); isC {
				continue
			}
			out = append(out, d)
		}
		return out
	}
	type sendSite struct {
		in     *ssa.Send
		roots  []interface{}
		noErr  bool
		isErr  bool
		inFunc *ssa.Function
	}
	// the workers of a step: functions started with `go` inside Run, and helpers that only they call
	workers := map[*ssa.Function]bool{}
	for _, f := range scope {
		ssau.Instrs(f, func(in ssa.Instruction) {
			g, ok := in.(*ssa.Go)
			if !ok {
				return
			}
			if sc := g.Call.StaticCallee(); sc != nil {
				workers[sc] = true
			}
			for _, d := range deepDefs(g.Call.Value, scope) {
				switch x := d.(type) {
				case *ssa.MakeClosure:
					if fn, isFn := x.Fn.(*ssa.Function); isFn {
						workers[fn] = true
					}
				case *ssa.Function:
					workers[x] = true
				}
			}
		})
	}
	for changed := true; changed; {
		changed = false
		for _, f := range scope {
			if workers[f] || f == run {
				continue
			}
			sites := callSitesOf(f, scope)
			if len(sites) == 0 {
				// a closure defined in a worker and only called there
				if f.Parent() != nil && workers[f.Parent()] {
					used := false
					ssau.Instrs(f.Parent(), func(in ssa.Instruction) {
						if mc, isMC := in.(*ssa.MakeClosure); isMC && mc.Fn == ssa.Value(f) {
							for _, r := range ssau.Referrers(mc) {
								if _, isCall := r.(*ssa.Call); !isCall {
									used = true // handed on: not only called
								}
							}
						}
					})
					if !used {
						workers[f] = true
						changed = true
					}
				}
				continue
			}
			all := true
			for _, cs := range sites {
				if !workers[cs.Parent()] {
					all = false
				}
			}
			if all {
				workers[f] = true
				changed = true
			}
		}
	}
	var sends []sendSite
	for _, f := range scope {
		ssau.Instrs(f, func(in ssa.Instruction) {
			sd, ok := in.(*ssa.Send)
			if !ok || sd.X.Type().String() != "error" {
				return
			}
			// a value chosen before the send (`res := f(); if res == nil { res = happy }; errs <- res`) is sent
			// under the facts of the edge on which it was chosen
			type alt struct {
				v     ssa.Value
				facts []flow.Fact
			}
			var alts []alt
			var expandPhi func(v ssa.Value, facts []flow.Fact, depth int)
			expandPhi = func(v ssa.Value, facts []flow.Fact, depth int) {
				if p, isPhi := v.(*ssa.Phi); isPhi && depth < 4 && len(p.Edges) == len(p.Block().Preds) {
					for i, e := range p.Edges {
						ef := append(append([]flow.Fact{}, facts...), flow.EdgeFacts(p.Block().Preds[i], p.Block())...)
						expandPhi(e, ef, depth+1)
					}
					return
				}
				alts = append(alts, alt{v, facts})
			}
			expandPhi(sd.X, flow.FactsAt(sd.Block()), 0)
			for _, a := range alts {
				st := sendSite{in: sd, inFunc: f, roots: rootsOf(a.v)}
				for _, ft := range a.facts {
					bo, isB := ft.Cond.(*ssa.BinOp)
					if !isB || bo.X.Type().String() != "error" {
						continue
					}
					if !provablyNil(bo.Y, sd.Block()) && !provablyNil(bo.X, sd.Block()) {
						continue
					}
					if (bo.Op.String() == "==" && ft.True) || (bo.Op.String() == "!=" && !ft.True) {
						st.noErr = true
					} else {
						st.isErr = true
					}
				}
				sends = append(sends, st)
			}
		})
	}
	success := map[interface{}]bool{}
	for _, st := range sends {
		if st.noErr {
			for _, r := range st.roots {
				success[r] = true
			}
		}
	}
	if len(success) == 0 {
		c.R.Break(fmt.Sprintf("%s: no completion signal found in Session.Run (%d sends of an error examined)", rule, len(sends)))
		return
	}
	perFn := map[*ssa.Function]int{}
	for _, st := range sends {
		is := false
		for _, r := range st.roots {
			if success[r] {
				is = true
			}
		}
		if !is {
			continue
		}
		perFn[st.inFunc]++
		// a worker may also send it at its very end, after every failure has returned (no error is pending there)
		okSend := st.noErr || (workers[st.inFunc] && !st.isErr)
		c.R.Check(okSend, rule, fmt.Sprintf("%s: completion signal #%d", fname(st.inFunc), perFn[st.inFunc]), c.pos(st.in), "sent by a worker of the step, and not where its error is known to be non-nil", "the value that counts as a step's completion signal is also sent here, where no worker has finished without error (say when the step's time is up): a step can pass although an expected message never arrived")
	}
}

// c01ComparedAsIs: a pattern constant matches the message string equal to it.
// The strings the matcher compares for equality are therefore the strings it
// was given: an operand that was computed (cut, concatenated, or returned by a
// function outside the matcher) is a constant standing for another string.
func c01ComparedAsIs(c *Ctx, rule string, m *matchModel) {
	fns := m.fns
	isString := func(t types.Type) bool {
		b, ok := t.Underlying().(*types.Basic)
		return ok && b.Kind() == types.String
	}
	inScope := map[*ssa.Function]bool{}
	for _, f := range fns {
		inScope[f] = true
	}
	n := 0
	perFn := map[*ssa.Function]int{}
	for _, f := range fns {
		if prog.PkgOf(f) != "match" {
			continue
		}
		ssau.Instrs(f, func(in ssa.Instruction) {
			bo, ok := in.(*ssa.BinOp)
			if !ok || (bo.Op.String() != "==" && bo.Op.String() != "!=") || !isString(bo.X.Type()) {
				return
			}
			if _, isC := bo.X.(*ssa.Const); isC {
				return
			}
			if _, isC := bo.Y.(*ssa.Const); isC {
				return
			}
			// only a comparison of a string of the pattern with a string of the message
			{
				p, fct := bo.X, bo.Y
				if m.has(fct, "P") && m.has(p, "F") && !m.has(p, "P") {
					p, fct = fct, p
				}
				if !(m.has(p, "P") && m.has(fct, "F") && !m.has(fct, "P")) {
					return
				}
			}
			n++
			perFn[f]++
			var bad []string
			for _, op := range []ssa.Value{bo.X, bo.Y} {
				for _, d := range deepDefs(op, fns) {
					switch x := d.(type) {
					case *ssa.Slice:
						bad = append(bad, "a part of a string ("+c.posv(x)+")")
					case *ssa.BinOp:
						bad = append(bad, "a concatenation ("+c.posv(x)+")")
					case *ssa.Call:
						if sc := x.Common().StaticCallee(); sc == nil || !inScope[sc] {
							bad = append(bad, "the result of "+ssau.CalleeName(x)+" ("+c.posv(x)+")")
						}
					case *ssa.Convert:
						bad = append(bad, "a converted value ("+c.posv(x)+")")
					}
				}
			}
			if len(bad) > 2 {
				bad = bad[:2]
			}
			c.R.Check(len(bad) == 0, rule, fmt.Sprintf("%s: string comparison #%d", fname(f), perFn[f]), c.pos(in), "both strings are the ones the matcher was given (or found in the bindings)", "a string compared here is "+strings.Join(bad, ", ")+": a pattern constant then stands for a string other than itself")
		})
	}
	if n == 0 {
		c.R.Break(rule + ": no comparison of a pattern string with a message string found in the matcher")
	}
}

// c17AddAtomic: in cmd/mcrew's Timers.Add the test "is this id pending" and the
// filing of the new entry lie in one critical section.  Both are lifted to the
// instruction of Add that contains them (itself, or the call of a helper); the
// rule fails when a release of a mutex can happen between the two: an Unlock
// in Add on a way from the test to the filing, or a helper that takes and
// releases the lock by itself.
func c17AddAtomic(c *Ctx, rule string) {
	add := c.P.Func("cmd/mcrew", "Timers", "Add")
	if add == nil {
		c.R.Break(rule + ": cmd/mcrew Timers.Add not found")
		return
	}
	isTimersMap := func(v ssa.Value) bool {
		_, is := ssau.LoadOfField(v, prog.Abs("cmd/mcrew"), "Timers", "timers")
		return is
	}
	// closure of Add inside the package, without goroutines and closures started by it
	helpers := map[*ssa.Function]bool{}
	var walk func(f *ssa.Function)
	walk = func(f *ssa.Function) {
		ssau.Instrs(f, func(in ssa.Instruction) {
			if cl, ok := in.(*ssa.Call); ok {
				if sc := cl.Common().StaticCallee(); sc != nil && sc.Blocks != nil && prog.PkgOf(sc) == "cmd/mcrew" && !helpers[sc] && sc != add {
					helpers[sc] = true
					walk(sc)
				}
			}
		})
	}
	walk(add)
	unlocks := func(f *ssa.Function) bool {
		found := false
		ssau.Instrs(f, func(in ssa.Instruction) {
			if ci, ok := in.(ssa.CallInstruction); ok {
				n := ssau.CalleeName(ci)
				if strings.HasSuffix(n, "Mutex).Unlock") || strings.HasSuffix(n, "Mutex).RUnlock") {
					found = true
				}
			}
		})
		return found
	}
	// closure of one helper
	closureOf := func(h *ssa.Function) []*ssa.Function {
		seen := map[*ssa.Function]bool{h: true}
		work := []*ssa.Function{h}
		for i := 0; i < len(work); i++ {
			ssau.Instrs(work[i], func(in ssa.Instruction) {
				if cl, ok := in.(*ssa.Call); ok {
					if sc := cl.Common().StaticCallee(); sc != nil && helpers[sc] && !seen[sc] {
						seen[sc] = true
						work = append(work, sc)
					}
				}
			})
		}
		return work
	}
	var tests, files []ssa.Instruction // lifted to Add
	liftedRelease := map[ssa.Instruction]bool{}
	scan := func(f *ssa.Function, lift ssa.Instruction) {
		ssau.Instrs(f, func(in ssa.Instruction) {
			at := lift
			if at == nil {
				at = in
			}
			switch x := in.(type) {
			case *ssa.Lookup:
				if x.CommaOk && isTimersMap(x.X) {
					tests = append(tests, at)
				}
			case *ssa.MapUpdate:
				if isTimersMap(x.Map) {
					files = append(files, at)
				}
			}
		})
	}
	scan(add, nil)
	ssau.Instrs(add, func(in ssa.Instruction) {
		cl, ok := in.(*ssa.Call)
		if !ok {
			return
		}
		sc := cl.Common().StaticCallee()
		if sc == nil || !helpers[sc] {
			return
		}
		for _, h := range closureOf(sc) {
			scan(h, in)
			if unlocks(h) {
				liftedRelease[in] = true
			}
		}
	})
	if len(tests) == 0 || len(files) == 0 {
		c.R.Break(fmt.Sprintf("%s: expected Timers.Add to test the pending map for the id and to file the entry (found %d tests, %d stores)", rule, len(tests), len(files)))
		return
	}
	// releases directly in Add (not deferred)
	var releases []ssa.Instruction
	ssau.Instrs(add, func(in ssa.Instruction) {
		if cl, ok := in.(*ssa.Call); ok {
			n := ssau.CalleeName(cl)
			if strings.HasSuffix(n, "Mutex).Unlock") || strings.HasSuffix(n, "Mutex).RUnlock") {
				releases = append(releases, in)
			}
		}
		if liftedRelease[in] {
			releases = append(releases, in)
		}
	})
	var bad []string
	for _, t := range tests {
		for _, f := range files {
			if liftedRelease[t] {
				bad = append(bad, "the test is made by a helper that takes and releases the lock by itself ("+c.pos(t)+")")
			}
			if liftedRelease[f] {
				bad = append(bad, "the entry is filed by a helper that takes and releases the lock by itself ("+c.pos(f)+")")
			}
			for _, r := range releases {
				if r == t || r == f {
					continue
				}
				if instrReaches(t, r) && instrReaches(r, f) {
					bad = append(bad, "the lock can be released at "+c.pos(r)+" between the test and the filing")
				}
			}
		}
	}
	if len(bad) > 2 {
		bad = bad[:2]
	}
	c.R.Check(len(bad) == 0, rule, "cmd/mcrew.(*Timers).Add: the id is tested and the entry filed in one critical section", c.P.Pos(add.Pos()), fmt.Sprintf("%d test(s) and %d store(s) of the pending map, no release of a mutex between them", len(tests), len(files)), strings.Join(bad, "; ")+": two requests for one id can both be accepted, and the first entry is overwritten, so an accepted timer that was never cancelled never fires")
}

// instrReaches: control can pass from instruction a to instruction b of the same function.
func instrReaches(a, b ssa.Instruction) bool {
	if a.Block() == b.Block() {
		ia, ib := -1, -1
		for i, in := range a.Block().Instrs {
			if in == a {
				ia = i
			}
			if in == b {
				ib = i
			}
		}
		if ia < ib {
			return true
		}
		// around a cycle
		for _, s := range a.Block().Succs {
			if blockReaches(s, b.Block()) {
				return true
			}
		}
		return false
	}
	for _, s := range a.Block().Succs {
		if blockReaches(s, b.Block()) {
			return true
		}
	}
	return false
}

// c20SetsFromTheGraph: the names Analyze files in its accounting sets (targeted,
// missing, empty, ...) come from the graph: node names and branch targets.  A
// key that derives from another field of the Spec (ActionErrorNode, ErrorNode,
// a name, ...) puts spec-level metadata among the branch targets.
func c20SetsFromTheGraph(c *Ctx, rule string, fns []*ssa.Function) {
	n := 0
	var bad []string
	for _, f := range fns {
		ssau.Instrs(f, func(in ssa.Instruction) {
			mu, ok := in.(*ssa.MapUpdate)
			if !ok {
				return
			}
			mt, isM := mu.Map.Type().Underlying().(*types.Map)
			if !isM {
				return
			}
			if b, isB := mt.Key().Underlying().(*types.Basic); !isB || b.Kind() != types.String {
				return
			}
			n++
			for _, d := range deepDefs(mu.Key, fns) {
				ld, isLd := d.(*ssa.UnOp)
				if !isLd {
					continue
				}
				fa, isFA := ld.X.(*ssa.FieldAddr)
				if !isFA {
					continue
				}
				named, fld, _, isF := ssau.FieldOf(fa)
				if isF && named != nil && named.Obj().Name() == "Spec" && named.Obj().Pkg() != nil && named.Obj().Pkg().Path() == prog.Abs("core") && fld != "Nodes" {
					bad = append(bad, fmt.Sprintf("Spec.%s is filed in a set (%s)", fld, c.pos(in)))
				}
			}
		})
	}
	if n == 0 {
		c.R.Break(rule + ": Analyze files nothing in a set")
		return
	}
	c.R.Check(len(bad) == 0, rule, "Analyze: what is filed in the accounting sets comes from nodes and branches", "tools/analysis.go", fmt.Sprintf("%d stores into sets of names; no key derives from a field of Spec other than Nodes", n), strings.Join(bad, "; ")+": a name that no branch targets is reported among the branch targets (an orphan disappears, a missing target appears)")
}

// c18EngineRemovesNothing: between what an action or guard returned and the
// state that continues, the engine removes no binding.  Nothing in package core
// that Step or Walk reach deletes from a bindings map or calls the matcher's
// removing helpers (Bindings.Remove, DeleteExcept).
func c18EngineRemovesNothing(c *Ctx, rule string) {
	step := c.P.Func("core", "Spec", "Step")
	walk := c.P.Func("core", "Spec", "Walk")
	if step == nil || walk == nil {
		c.R.Break(rule + ": core Step / Walk not found")
		return
	}
	seen := map[*ssa.Function]bool{}
	var fns []*ssa.Function
	for _, root := range []*ssa.Function{step, walk} {
		for _, f := range append([]*ssa.Function{root}, pkgClosure(root)...) {
			if prog.PkgOf(f) == "core" && !seen[f] {
				seen[f] = true
				fns = append(fns, f)
			}
		}
	}
	var bad []string
	for _, f := range fns {
		ssau.Instrs(f, func(in ssa.Instruction) {
			ci, ok := in.(ssa.CallInstruction)
			if !ok {
				return
			}
			if b, isB := ci.Common().Value.(*ssa.Builtin); isB && b.Name() == "delete" {
				t := ci.Common().Args[0].Type()
				if isBindingsT(t) || types.TypeString(t.Underlying(), nil) == "map[string]interface{}" {
					bad = append(bad, fmt.Sprintf("%s deletes from a bindings map (%s)", fname(f), c.pos(in)))
				}
				return
			}
			if sc := ci.Common().StaticCallee(); sc != nil && prog.PkgOf(sc) == "match" && (sc.Name() == "Remove" || sc.Name() == "DeleteExcept") {
				bad = append(bad, fmt.Sprintf("%s calls Bindings.%s (%s)", fname(f), sc.Name(), c.pos(in)))
			}
		})
	}
	if len(fns) < 5 {
		c.R.Break(fmt.Sprintf("%s: closure of Step/Walk in core has only %d functions", rule, len(fns)))
		return
	}
	if len(bad) > 2 {
		bad = bad[:2]
	}
	c.R.Check(len(bad) == 0, rule, "core: the engine removes no binding", "core/step.go", fmt.Sprintf("%d functions of core reached from Step and Walk: no delete on a bindings map, no Bindings.Remove/DeleteExcept", len(fns)), strings.Join(bad, "; ")+": a binding an action or guard returned (or a permanent binding whose value is null) is gone from the state that continues")
}

// c03GoroutineSharesLoopVar: the module's language version (go 1.20) gives a
// loop one variable for all its iterations.  A goroutine started in the loop
// that captures such a variable reads whatever iteration the loop has reached
// by then: the matcher's answer then depends on scheduling.  The rule looks at
// every go statement in the given functions: no variable it captures is a
// cell that lives outside the innermost loop around the go statement and is
// assigned inside that loop.
func c03GoroutineSharesLoopVar(c *Ctx, rule string, fns []*ssa.Function) {
	var all []*ssa.Function
	seen := map[*ssa.Function]bool{}
	for _, f := range fns {
		for _, g := range ssau.WithAnon(f) {
			if !seen[g] {
				seen[g] = true
				all = append(all, g)
			}
		}
	}
	var bad []string
	ngo := 0
	for _, f := range all {
		var loops []*flow.Loop
		ssau.Instrs(f, func(in ssa.Instruction) {
			g, ok := in.(*ssa.Go)
			if !ok {
				return
			}
			ngo++
			if loops == nil {
				loops = flow.Loops(f)
			}
			mc, isMC := g.Call.Value.(*ssa.MakeClosure)
			var captured []ssa.Value
			if isMC {
				captured = mc.Bindings
			}
			for _, a := range g.Call.Args {
				captured = append(captured, a) // a pointer handed over is as good as a capture
			}
			for _, L := range loops {
				if !L.Blocks[g.Block()] {
					continue
				}
				for _, b := range captured {
					al, isAl := b.(*ssa.Alloc)
					if !isAl || L.Blocks[al.Block()] {
						continue
					}
					for _, r := range ssau.Referrers(al) {
						if st, isSt := r.(*ssa.Store); isSt && st.Addr == ssa.Value(al) && L.Blocks[st.Block()] {
							bad = append(bad, fmt.Sprintf("the goroutine started at %s captures %s, which the loop around it assigns on every iteration (%s)", c.pos(g), al.Comment, c.pos(st)))
						}
					}
				}
			}
		})
	}
	if len(all) == 0 {
		c.R.Break(rule + ": no function to examine")
		return
	}
	if len(bad) > 2 {
		bad = bad[:2]
	}
	c.R.Check(len(bad) == 0, rule, "match: no goroutine shares a loop's variable with the loop", "match/match.go", fmt.Sprintf("%d functions, %d go statements: none captures a variable that the loop around it assigns", len(all), ngo), strings.Join(bad, "; ")+": the goroutine sees the value of whatever iteration the loop has reached, so the result depends on scheduling (and the variable is read and written concurrently)")
}

// c01AppendInLoopShares: inside a loop over alternatives, append(base, x) with
// a base that comes from outside the loop and is not the accumulator of the
// loop (the result does not flow back into base) hands out, iteration after
// iteration, slices that can share one backing array: the record of one
// alternative is overwritten by the next.
func c01AppendInLoopShares(c *Ctx, rule string, fns []*ssa.Function) {
	var bad []string
	n := 0
	for _, f := range fns {
		if prog.PkgOf(f) != "match" {
			continue
		}
		loops := flow.Loops(f)
		ssau.Instrs(f, func(in ssa.Instruction) {
			cl, ok := in.(*ssa.Call)
			if !ok {
				return
			}
			b, isB := cl.Common().Value.(*ssa.Builtin)
			if !isB || b.Name() != "append" {
				return
			}
			n++
			base := cl.Common().Args[0]
			if _, isC := base.(*ssa.Const); isC {
				return
			}
			// innermost loop around the call
			var L *flow.Loop
			for _, l := range loops {
				if l.Blocks[cl.Block()] && (L == nil || len(l.Blocks) < len(L.Blocks)) {
					L = l
				}
			}
			if L == nil {
				return
			}
			bi, isInstr := base.(ssa.Instruction)
			if isInstr && L.Blocks[bi.Block()] {
				// defined in the loop: the accumulator (a phi fed by the result) or a value of this iteration
				if phi, isPhi := base.(*ssa.Phi); isPhi {
					// fed by the result, directly or through the phis of joins inside the loop
					fed := false
					seenPhi := map[*ssa.Phi]bool{}
					var feeds func(p *ssa.Phi, depth int) bool
					feeds = func(p *ssa.Phi, depth int) bool {
						if seenPhi[p] || depth > 6 {
							return false
						}
						seenPhi[p] = true
						for _, e := range p.Edges {
							if e == ssa.Value(cl) {
								return true
							}
							if q, isQ := e.(*ssa.Phi); isQ && feeds(q, depth+1) {
								return true
							}
						}
						return false
					}
					fed = feeds(phi, 0)
					if fed || phi.Block() != L.Header {
						return
					}
					// a header phi not fed by this append: carried around the loop unchanged
				} else {
					return
				}
			}
			// a load of a variable that the result is stored back into
			if ld, isLd := base.(*ssa.UnOp); isLd {
				for _, r := range ssau.Referrers(cl) {
					if st, isSt := r.(*ssa.Store); isSt && st.Addr == ld.X {
						return
					}
				}
			}
			// is the result kept?
			kept := false
			for _, r := range ssau.Referrers(cl) {
				switch r.(type) {
				case *ssa.Store, *ssa.Call, *ssa.Return, *ssa.MapUpdate, *ssa.Phi, *ssa.MakeInterface:
					kept = true
				}
			}
			if kept {
				bad = append(bad, fmt.Sprintf("%s appends to a slice from outside the loop and keeps the result (%s)", fname(f), c.pos(in)))
			}
		})
	}
	if n == 0 {
		c.R.Break(rule + ": no append in the matcher")
		return
	}
	if len(bad) > 2 {
		bad = bad[:2]
	}
	c.R.Check(len(bad) == 0, rule, "match: records of alternatives do not share a backing array", "match/match.go", fmt.Sprintf("%d appends: in a loop, the base is the loop's own accumulator or a value of that iteration", n), strings.Join(bad, "; ")+": two iterations can be handed the same backing array, so what one alternative recorded is overwritten by the next")
}

// c15SetMachineInstallsAsGiven: sio's SetMachine is how a host restores a
// machine from what was reported.  Apart from DefaultState's filling of an
// empty node name or missing bindings, nothing SetMachine reaches writes into
// the state it is given: an entry added to its bindings (parameter defaults,
// say) makes the restored machine differ from the one that was reported.
func c15SetMachineInstallsAsGiven(c *Ctx, rule string) {
	sm := c.P.Func("sio", "Crew", "SetMachine")
	if sm == nil || len(sm.Params) < 5 {
		c.R.Break(rule + ": sio.(*Crew).SetMachine not found")
		return
	}
	idx := -1
	for i, p := range sm.Params {
		if pt, ok := p.Type().(*types.Pointer); ok {
			if n, isN := pt.Elem().(*types.Named); isN && n.Obj().Name() == "State" {
				idx = i
			}
		}
	}
	if idx < 0 {
		c.R.Break(rule + ": SetMachine has no *core.State parameter")
		return
	}
	roots := map[int]pta.RootSpec{idx: {Name: "state", Levels: 4}}
	a := pta.New(pta.Config{Prog: c.P, EnginePkgs: map[string]bool{"sio": true, "crew": true}, Entries: []*ssa.Function{sm}, Roots: map[*ssa.Function]map[int]pta.RootSpec{sm: roots}, External: stdExternal})
	a.Run()
	c.noteAnalysis(a)
	n, total := 0, 0
	for _, e := range a.Effects() {
		if os.Getenv("VERIF_DEBUG") != "" {
			fmt.Fprintf(os.Stderr, "SetMachine effect: %s %s\n", e.Key, e.Target.Name)
		}
		if !strings.HasPrefix(e.Target.Name, "root:state") {
			continue
		}
		total++
		if strings.HasSuffix(e.Key, ":call DefaultState") {
			continue // DefaultState fills what is missing
		}
		if strings.HasSuffix(e.Key, `:map["timers"]=`) {
			continue // the timers machine's state holds the crew's timers by design
		}
		n++
		c.R.Violate(rule, fmt.Sprintf("%s|writes %s", e.Key, e.Target.Name), c.pos(e.Site.Instr), fmt.Sprintf("%s in %s writes %s: SetMachine changes the state it was given to install (path: %s), so a machine restored from what was reported is not the machine that was reported", e.Site.Kind, fname(e.Site.Fn), e.Target.Name, strings.Join(e.Origin, " -> ")))
	}
	if n == 0 {
		c.R.Discharge(rule, "SetMachine: the given state is installed as it is", c.P.Pos(sm.Pos()), fmt.Sprintf("%d writes reach the given state, all of them DefaultState's filling of a missing node name or bindings, or the timers machine's reference to the crew's timers", total))
	}
}

// c03NoRepeatedResult: binding sets that are appended to a result inside a
// loop are values of that iteration.  An append whose appended bindings (a
// Bindings map or a slice of them) are defined outside the innermost loop
// around it puts the same map into the result once per iteration: the caller
// gets several "independent" results that are one map.
func c03NoRepeatedResult(c *Ctx, rule string, fns []*ssa.Function) {
	holdsBindings := func(t types.Type) bool {
		for i := 0; i < 3; i++ {
			if isBindingsT(t) {
				return true
			}
			sl, ok := t.Underlying().(*types.Slice)
			if !ok {
				return false
			}
			t = sl.Elem()
		}
		return false
	}
	n := 0
	var bad []string
	for _, f := range fns {
		if prog.PkgOf(f) != "match" {
			continue
		}
		loops := flow.Loops(f)
		ssau.Instrs(f, func(in ssa.Instruction) {
			cl, ok := in.(*ssa.Call)
			if !ok {
				return
			}
			b, isB := cl.Common().Value.(*ssa.Builtin)
			if !isB || b.Name() != "append" || len(cl.Common().Args) < 2 {
				return
			}
			var L *flow.Loop
			for _, l := range loops {
				if l.Blocks[cl.Block()] && (L == nil || len(l.Blocks) < len(L.Blocks)) {
					L = l
				}
			}
			if L == nil {
				return
			}
			arg := cl.Common().Args[1]
			var vals []ssa.Value
			if sl, isSl := arg.(*ssa.Slice); isSl {
				if _, isAl := sl.X.(*ssa.Alloc); isAl {
					vals = sliceElems(arg, []*ssa.Function{f}) // append(acc, x)
				}
			}
			if len(vals) == 0 {
				vals = []ssa.Value{arg} // append(acc, xs...)
			}
			for _, v := range vals {
				if !holdsBindings(v.Type()) {
					continue
				}
				n++
				if _, isC := v.(*ssa.Const); isC {
					continue
				}
				vi, isInstr := v.(ssa.Instruction)
				if isInstr && L.Blocks[vi.Block()] {
					continue
				}
				bad = append(bad, fmt.Sprintf("%s appends binding sets that do not change from one iteration to the next (%s)", fname(f), c.pos(in)))
			}
		})
	}
	if n == 0 {
		c.R.Break(rule + ": no append of binding sets inside a loop found in the matcher")
		return
	}
	if len(bad) > 2 {
		bad = bad[:2]
	}
	c.R.Check(len(bad) == 0, rule, "match: a binding set enters a result once", "match/match.go", fmt.Sprintf("%d appends of binding sets inside loops, each of a value of that iteration", n), strings.Join(bad, "; ")+": the same map is handed out several times, so results that look independent are one map (a caller that extends one extends them all)")
}

package rules

import (
	"go/constant"
	"go/token"
	"go/types"

	"golang.org/x/tools/go/ssa"

	"sheensverif/internal/flow"
	"sheensverif/internal/ssau"
)

// This file resolves values through the fields of a *record that is private to one activation* of a function: a
// struct allocated in the function (the owner) whose address is only used to read and write its fields, as the
// receiver or an argument of static in-repository helpers that use it the same way, and as the receiver of method
// values that are only called (`acc := &considered{...}; ... acc.record(...); return acc.result()`).  Such a field
// is an ordinary local variable of the owner that happens to be read and written by helpers.  Unlike
// resolveThroughLocals the resolution is flow-sensitive in the owner: a read sees the writes that can have
// happened before it (a write in a helper happens at the owner's call that leads to the helper), and the zero value
// unless a write in the owner itself always comes first.

// cellResolver resolves values of the owner function and of the helpers in scope (scope[0] is the owner).
type cellResolver struct {
	owner    *ssa.Function
	scope    []*ssa.Function
	inScope  map[*ssa.Function]bool
	confined map[*ssa.Alloc]bool
	leads    map[*ssa.Function][]ssa.Instruction
}

func newCellResolver(owner *ssa.Function, scope []*ssa.Function) *cellResolver {
	r := &cellResolver{owner: owner, inScope: map[*ssa.Function]bool{}, confined: map[*ssa.Alloc]bool{}, leads: map[*ssa.Function][]ssa.Instruction{}}
	r.scope = append(r.scope, owner)
	r.inScope[owner] = true
	for _, f := range scope {
		if f != owner && !r.inScope[f] {
			r.scope = append(r.scope, f)
			r.inScope[f] = true
		}
	}
	return r
}

// resolveCells: the leaf definitions of v (a value of owner or of a helper in scope), seen through phis,
// conversions, helper results and parameters like deepDefs, and through the fields of private records of owner.
// The zero value of a field is returned as a constant.
func resolveCells(v ssa.Value, owner *ssa.Function, scope []*ssa.Function) []ssa.Value {
	return newCellResolver(owner, scope).resolve(v)
}

// sitesLeadingTo: the instructions of the owner through which control can enter fn (calls whose static callee's
// closure contains fn).
func (r *cellResolver) sitesLeadingTo(fn *ssa.Function) []ssa.Instruction {
	if s, ok := r.leads[fn]; ok {
		return s
	}
	var out []ssa.Instruction
	ssau.Instrs(r.owner, func(in ssa.Instruction) {
		ci, ok := in.(ssa.CallInstruction)
		if !ok {
			return
		}
		sc := ci.Common().StaticCallee()
		if sc == nil || !r.inScope[sc] || sc == r.owner {
			return
		}
		for _, g := range pkgClosure(sc) {
			if g == fn {
				out = append(out, in)
				return
			}
		}
	})
	r.leads[fn] = out
	return out
}

// isConfined: the record allocated by al does not leave the activation (see the file comment).  Reading or
// overwriting the record as a whole (`x := *p`, `*p = T{...}`) does not hand out its address.
func (r *cellResolver) isConfined(al *ssa.Alloc) bool {
	if v, ok := r.confined[al]; ok {
		return v
	}
	if _, isStruct := al.Type().Underlying().(*types.Pointer).Elem().Underlying().(*types.Struct); !isStruct {
		r.confined[al] = false
		return false
	}
	seen := map[ssa.Value]bool{}
	var rec func(v ssa.Value, depth int) bool
	rec = func(v ssa.Value, depth int) bool {
		if depth > 5 {
			return false
		}
		if seen[v] {
			return true
		}
		seen[v] = true
		for _, ref := range ssau.Referrers(v) {
			switch y := ref.(type) {
			case *ssa.DebugRef:
			case *ssa.FieldAddr:
				for _, r2 := range ssau.Referrers(y) {
					switch z := r2.(type) {
					case *ssa.DebugRef:
					case *ssa.UnOp:
						if z.Op != token.MUL {
							return false
						}
					case *ssa.Store:
						if z.Addr != ssa.Value(y) || z.Val == ssa.Value(y) {
							return false
						}
					default:
						return false
					}
				}
			case *ssa.UnOp:
				if y.Op != token.MUL {
					return false
				}
			case *ssa.Store:
				if y.Val == v || y.Addr != v {
					return false
				}
			case *ssa.Call:
				h := y.Common().StaticCallee()
				if h == nil || h.Blocks == nil || y.Common().Value == v || !r.inScope[h] {
					return false
				}
				for i, a := range y.Common().Args {
					if a != v {
						continue
					}
					if i >= len(h.Params) || !rec(h.Params[i], depth+1) {
						return false
					}
				}
			case *ssa.MakeClosure:
				w, isF := y.Fn.(*ssa.Function)
				if !isF || w.Synthetic == "" || len(y.Bindings) != 1 || y.Bindings[0] != v || len(w.FreeVars) != 1 {
					return false
				}
				// the method value is only called
				for _, r2 := range ssau.Referrers(y) {
					switch z := r2.(type) {
					case *ssa.DebugRef:
					case *ssa.Call:
						if z.Common().Value != ssa.Value(y) {
							return false
						}
					default:
						return false
					}
				}
				// and the method uses its receiver the same way
				if !rec(w.FreeVars[0], depth+1) {
					return false
				}
			default:
				return false
			}
		}
		return true
	}
	ok := al.Parent() == r.owner && rec(al, 0)
	r.confined[al] = ok
	return ok
}

// zeroConst: the zero value of type t as a constant.
func zeroConst(t types.Type) *ssa.Const {
	if b, ok := t.Underlying().(*types.Basic); ok {
		switch {
		case b.Info()&types.IsBoolean != 0:
			return ssa.NewConst(constant.MakeBool(false), t)
		case b.Info()&types.IsString != 0:
			return ssa.NewConst(constant.MakeString(""), t)
		case b.Info()&types.IsNumeric != 0:
			return ssa.NewConst(constant.MakeInt64(0), t)
		}
	}
	return ssa.NewConst(nil, t)
}

// cellWrite is one write a read of a record's field can observe: the value (in the function fn that executes the
// store), and the owner's instruction at which the write happens (nil when fn is the owner).
type cellWrite struct {
	v   ssa.Value
	top ssa.Instruction
}

// happensBefore: the owner's instruction a can have been executed before (or, for a call, while) the owner's
// instruction b is, during the life of the record allocated by al.
func happensBefore(a, b ssa.Instruction, al *ssa.Alloc) bool {
	if a == b {
		_, isCall := a.(ssa.CallInstruction)
		return isCall
	}
	if a.Block() == b.Block() && flow.Index(a) < flow.Index(b) {
		return true
	}
	avoid := map[*ssa.BasicBlock]bool{}
	if al.Block() != a.Block() && al.Block() != b.Block() {
		avoid[al.Block()] = true // a new record is made there
	}
	for _, s := range a.Block().Succs {
		if avoid[s] && s != b.Block() {
			continue
		}
		if flow.Reachable(s, b.Block(), avoid) {
			return true
		}
	}
	return false
}

// fieldWritesAt: the writes of field #f of the private record al that a read at the owner's instruction `at` can
// observe, the zero value included where no write of the owner itself always comes first.  ok is false when some
// write cannot be understood (the record is overwritten as a whole by something that is not a private record).
func (r *cellResolver) fieldWritesAt(al *ssa.Alloc, f int, at ssa.Instruction, depth int) (ws []cellWrite, zero bool, ok bool) {
	if depth > 4 {
		return nil, false, false
	}
	zero = true
	covers := func(st ssa.Instruction) {
		if st.Parent() == r.owner && at.Parent() == r.owner && st != at && flow.InstrDominates(st, at) {
			zero = false
		}
	}
	for _, fn := range r.scope {
		bad := false
		ssau.Instrs(fn, func(in ssa.Instruction) {
			st, isSt := in.(*ssa.Store)
			if !isSt {
				return
			}
			var base ssa.Value
			whole := false
			if fa, isFA := st.Addr.(*ssa.FieldAddr); isFA {
				if fa.Field != f || !types.Identical(fa.X.Type(), al.Type()) {
					return
				}
				base = fa.X
			} else if types.Identical(st.Addr.Type(), al.Type()) {
				base, whole = st.Addr, true
			} else {
				return
			}
			hit := base == ssa.Value(al)
			if !hit {
				for _, d := range deepDefs(base, r.scope) {
					if d == ssa.Value(al) {
						hit = true
					}
				}
			}
			if !hit {
				return
			}
			var tops []ssa.Instruction
			if fn == r.owner {
				tops = []ssa.Instruction{nil}
				if !happensBefore(st, at, al) {
					return
				}
				covers(st)
			} else {
				for _, s := range r.sitesLeadingTo(fn) {
					if happensBefore(s, at, al) {
						tops = append(tops, s)
					}
				}
			}
			for _, top := range tops {
				if !whole {
					ws = append(ws, cellWrite{st.Val, top})
					continue
				}
				// the record is overwritten as a whole: by a copy of another private record
				ld, isLd := st.Val.(*ssa.UnOp)
				if !isLd || ld.Op != token.MUL || fn != r.owner {
					bad = true
					return
				}
				src, isAl := ld.X.(*ssa.Alloc)
				if !isAl || !r.isConfined(src) {
					bad = true
					return
				}
				sub, z, ok2 := r.fieldWritesAt(src, f, ld, depth+1)
				if !ok2 {
					bad = true
					return
				}
				ws = append(ws, sub...)
				if z {
					ws = append(ws, cellWrite{zeroConst(al.Type().Underlying().(*types.Pointer).Elem().Underlying().(*types.Struct).Field(f).Type()), nil})
				}
			}
		})
		if bad {
			return nil, false, false
		}
	}
	return ws, zero, true
}

func (r *cellResolver) resolve(v ssa.Value) []ssa.Value { return r.resolveAt(v, nil) }

// resolveAt resolves v as it is while the owner executes its instruction top (nil: v is a value of the owner, or
// any activation of the helper it belongs to).
func (r *cellResolver) resolveAt(v ssa.Value, start ssa.Instruction) []ssa.Value {
	var out []ssa.Value
	type key struct {
		v   ssa.Value
		top ssa.Instruction
	}
	seen := map[key]bool{}
	budget := 3000
	var rec func(v ssa.Value, top ssa.Instruction, depth int)
	leaf := func(v ssa.Value) {
		for _, o := range out {
			if o == v {
				return
			}
			if c1, ok := o.(*ssa.Const); ok {
				if c2, ok := v.(*ssa.Const); ok && types.Identical(c1.Type(), c2.Type()) && c1.String() == c2.String() {
					return
				}
			}
		}
		out = append(out, v)
	}
	// topFor: the owner's instruction that stands for "now" while a value of function fn is looked at
	topFor := func(fn *ssa.Function, top ssa.Instruction) ssa.Instruction {
		if fn == r.owner {
			return nil
		}
		return top
	}
	rec = func(v ssa.Value, top ssa.Instruction, depth int) {
		if v == nil {
			return
		}
		if seen[key{v, top}] {
			return
		}
		seen[key{v, top}] = true
		budget--
		if depth > 16 || budget < 0 {
			leaf(v)
			return
		}
		returns := func(cl *ssa.Call, idx int) bool {
			h := cl.Common().StaticCallee()
			if h == nil || h.Blocks == nil || !r.inScope[h] || h == r.owner {
				return false
			}
			t2 := top
			if cl.Parent() == r.owner {
				t2 = cl
			}
			n := 0
			for _, b := range h.Blocks {
				if ret, ok := b.Instrs[len(b.Instrs)-1].(*ssa.Return); ok && idx < len(ret.Results) {
					n++
					rec(ret.Results[idx], t2, depth+1)
				}
			}
			return n > 0
		}
		switch x := v.(type) {
		case *ssa.Phi:
			for _, e := range x.Edges {
				rec(e, top, depth+1)
			}
			return
		case *ssa.ChangeType:
			rec(x.X, top, depth+1)
			return
		case *ssa.MakeInterface:
			rec(x.X, top, depth+1)
			return
		case *ssa.ChangeInterface:
			rec(x.X, top, depth+1)
			return
		case *ssa.Call:
			if x.Common().Signature().Results().Len() == 1 && returns(x, 0) {
				return
			}
		case *ssa.Extract:
			if cl, ok := x.Tuple.(*ssa.Call); ok && returns(cl, x.Index) {
				return
			}
		case *ssa.Parameter:
			fn := x.Parent()
			idx := paramIndexOf(x)
			if fn != r.owner && r.inScope[fn] && idx >= 0 {
				n := 0
				for _, s := range callSitesOf(fn, r.scope) {
					args := s.Common().Args
					if idx >= len(args) {
						continue
					}
					if s.Parent() == r.owner {
						if top != nil && ssa.Instruction(s) != top {
							continue // another activation of the helper
						}
						n++
						rec(args[idx], nil, depth+1)
					} else {
						n++
						rec(args[idx], top, depth+1)
					}
				}
				if n > 0 {
					return
				}
			}
		case *ssa.FreeVar:
			fn := x.Parent()
			idx := -1
			for i, fv := range fn.FreeVars {
				if fv == x {
					idx = i
				}
			}
			n := 0
			for _, f := range r.scope {
				ssau.Instrs(f, func(in ssa.Instruction) {
					if mc, ok := in.(*ssa.MakeClosure); ok && mc.Fn == ssa.Value(fn) && idx >= 0 && idx < len(mc.Bindings) {
						n++
						rec(mc.Bindings[idx], topFor(f, top), depth+1)
					}
				})
			}
			if n > 0 {
				return
			}
		case *ssa.UnOp:
			if fa, isFA := x.X.(*ssa.FieldAddr); isFA && x.Op == token.MUL {
				// a field of a private record of the owner?
				sub := newCellResolver(r.owner, r.scope)
				sub.confined, sub.leads = r.confined, r.leads
				var als []*ssa.Alloc
				okAl := true
				for _, d := range sub.resolveAt(fa.X, top) {
					al, isAl := d.(*ssa.Alloc)
					if !isAl || !r.isConfined(al) {
						okAl = false
						break
					}
					als = append(als, al)
				}
				if okAl && len(als) > 0 {
					var ats []ssa.Instruction
					switch {
					case x.Parent() == r.owner:
						ats = []ssa.Instruction{x}
					case top != nil:
						ats = []ssa.Instruction{top}
					default:
						ats = r.sitesLeadingTo(x.Parent())
					}
					var all []cellWrite
					okW := len(ats) > 0
					zero := false
					for _, al := range als {
						for _, at := range ats {
							ws, z, ok := r.fieldWritesAt(al, fa.Field, at, 0)
							if !ok {
								okW = false
							}
							all = append(all, ws...)
							zero = zero || z
						}
					}
					if okW {
						for _, w := range all {
							rec(w.v, w.top, depth+1)
						}
						if zero {
							leaf(zeroConst(x.Type()))
						}
						return
					}
				}
			}
		}
		// what deepDefs can see through in one more step (variable cells, captured variables)
		ds := deepDefs(v, r.scope)
		if len(ds) == 0 || (len(ds) == 1 && ds[0] == v) {
			leaf(v)
			return
		}
		for _, d := range ds {
			if d == v {
				leaf(v)
				continue
			}
			t2 := top
			if in, isIn := d.(ssa.Instruction); isIn && in.Parent() == r.owner {
				t2 = nil
			}
			if p, isP := d.(*ssa.Parameter); isP && p.Parent() == r.owner {
				t2 = nil
			}
			rec(d, t2, depth+1)
		}
	}
	rec(v, start, 0)
	return out
}

// falseImplies is trueImplies for the other verdict: every way the bool-valued function h (result index ri) can
// return false happens where pred holds.
func falseImplies(h *ssa.Function, ri int, pred func(b *ssa.BasicBlock, extra []flow.Fact) bool) bool {
	if h == nil || h.Blocks == nil {
		return false
	}
	n := 0
	for _, b := range h.Blocks {
		ret, ok := b.Instrs[len(b.Instrs)-1].(*ssa.Return)
		if !ok || ri >= len(ret.Results) {
			continue
		}
		for _, d := range phiEdgesWithBlocks(ret.Results[ri], b) {
			cst, isC := d.v.(*ssa.Const)
			if isC && cst.Value != nil && cst.Value.String() == "true" {
				continue
			}
			n++
			if isC {
				if !pred(d.b, nil) {
					return false
				}
				continue
			}
			if !pred(b, flow.Expand([]flow.Fact{{Cond: d.v, True: false}})) && !pred(d.b, flow.Expand([]flow.Fact{{Cond: d.v, True: false}})) {
				return false
			}
		}
	}
	return n > 0
}

// deepDefsRecords is deepDefs that also sees through the fields of a record private to the function that reads them.
func deepDefsRecords(v ssa.Value, scope []*ssa.Function) []ssa.Value {
	var out []ssa.Value
	seen := map[ssa.Value]bool{}
	var rec func(v ssa.Value, depth int)
	rec = func(v ssa.Value, depth int) {
		for _, d := range deepDefs(v, scope) {
			if seen[d] {
				continue
			}
			seen[d] = true
			if ld, isLd := d.(*ssa.UnOp); isLd && ld.Op == token.MUL && depth < 4 {
				if _, isFA := ld.X.(*ssa.FieldAddr); isFA {
					rs := resolveCells(d, ld.Parent(), scope)
					if len(rs) != 1 || rs[0] != d {
						for _, x := range rs {
							if x == d {
								out = append(out, d)
							} else {
								rec(x, depth+1)
							}
						}
						continue
					}
				}
			}
			out = append(out, d)
		}
	}
	rec(v, 0)
	return out
}

// sameValue: x is target, or x reads a field of a record private to owner (`var act struct{exe; err}`) that holds
// target and nothing else whenever the read is executed.
func sameValue(x, target ssa.Value, owner *ssa.Function) bool {
	if x == nil || target == nil {
		return false
	}
	if x == target {
		return true
	}
	ld, ok := x.(*ssa.UnOp)
	if !ok || ld.Op != token.MUL || owner == nil || ld.Parent() != owner {
		return false
	}
	if _, isFA := ld.X.(*ssa.FieldAddr); !isFA {
		return false
	}
	ds := resolveCells(x, owner, []*ssa.Function{owner})
	return len(ds) == 1 && ds[0] == target
}

package rules

import (
	"go/types"
	"sort"

	"golang.org/x/tools/go/ssa"

	"sheensverif/internal/flow"
	"sheensverif/internal/prog"
	"sheensverif/internal/ssau"
)

// matchModel is the provenance model (engine E5) of package match: which SSA
// values derive from the pattern (P), the message/fact (F) or the bindings (B)
// arguments of the exported matching API, by position through all calls.
type matchModel struct {
	c       *Ctx
	fns     []*ssa.Function
	inSet   map[*ssa.Function]bool
	roles   map[ssa.Value]map[string]bool
	rets    map[*ssa.Function][]map[string]bool
	writers map[*ssa.Function]map[[2]int]bool // (param index, depth) whose Bindings may be written
	fresh   map[*ssa.Function]int             // -1 not fresh, 0 fresh container, 1 fresh container of fresh elements
	// pass: functions whose single result derives only from their own
	// parameters (by data operations): result roles are taken per call site.
	pass map[*ssa.Function][][]int
	// fieldRoles: what has been stored into a struct field, by field declaration (the model is field-based for
	// structs: a record that holds the candidate lists next to the remaining message elements does not merge them)
	fieldRoles map[*types.Var]map[string]bool
}

// fieldVar is the declaration of the field a FieldAddr / Field selects.
func fieldVar(x ssa.Value, field int) *types.Var {
	t := x.Type()
	if p, ok := t.Underlying().(*types.Pointer); ok {
		t = p.Elem()
	}
	st, ok := t.Underlying().(*types.Struct)
	if !ok || field >= st.NumFields() {
		return nil
	}
	return st.Field(field)
}

// storedField: the struct field an address lies in (the field itself, or an element of an array kept in it).
func storedField(addr ssa.Value) *types.Var {
	for {
		switch x := addr.(type) {
		case *ssa.IndexAddr:
			if _, isArr := x.X.Type().Underlying().(*types.Pointer); !isArr {
				return nil
			}
			addr = x.X
		case *ssa.FieldAddr:
			return fieldVar(x.X, x.Field)
		default:
			return nil
		}
	}
}

func (c *Ctx) newMatchModel() *matchModel {
	m := &matchModel{c: c, inSet: map[*ssa.Function]bool{}, roles: map[ssa.Value]map[string]bool{}, rets: map[*ssa.Function][]map[string]bool{},
		writers: map[*ssa.Function]map[[2]int]bool{}, fresh: map[*ssa.Function]int{}, fieldRoles: map[*types.Var]map[string]bool{}}
	entries := []*ssa.Function{c.fn("match", "Matcher", "Match"), c.fn("match", "Matcher", "Matches"), c.fn("match", "", "Match")}
	// closure inside package match
	var visit func(f *ssa.Function)
	visit = func(f *ssa.Function) {
		if f == nil || f.Blocks == nil || m.inSet[f] || prog.PkgOf(f) != "match" {
			return
		}
		m.inSet[f] = true
		m.fns = append(m.fns, f)
		for _, an := range f.AnonFuncs {
			visit(an)
		}
		ssau.Instrs(f, func(in ssa.Instruction) {
			if ci, ok := in.(ssa.CallInstruction); ok {
				for _, cal := range c.P.Callees(ci) {
					visit(cal)
				}
			}
		})
	}
	for _, e := range entries {
		visit(e)
	}
	sort.Slice(m.fns, func(i, j int) bool { return fname(m.fns[i]) < fname(m.fns[j]) })
	// seeds
	for _, e := range entries {
		if e == nil {
			continue
		}
		seenPattern := false
		for _, p := range e.Params {
			if ssau.TypeIs(p.Type(), prog.Abs("match"), "Bindings") {
				m.add(p, "B")
				continue
			}
			if it, ok := p.Type().Underlying().(*types.Interface); ok && it.NumMethods() == 0 {
				if !seenPattern {
					m.add(p, "P")
					seenPattern = true
				} else {
					m.add(p, "F")
				}
			}
		}
	}
	m.solvePass()
	m.solveRoles()
	m.solveFresh()
	m.solveWriters()
	return m
}

// solvePass finds pure pass-through helpers (such as the numeric coercion, or a wrapper around it that also
// reports whether it succeeded): no map access, no store, no loop over a map, and no call other than of another
// such helper.  For each result, the parameters it derives from.
func (m *matchModel) solvePass() {
	m.pass = map[*ssa.Function][][]int{}
	for changed := true; changed; {
		changed = false
		for _, f := range m.fns {
			if _, have := m.pass[f]; have || f.Signature.Results().Len() == 0 {
				continue
			}
			hasCall := false
			ssau.Instrs(f, func(in ssa.Instruction) {
				if ci, ok := in.(ssa.CallInstruction); ok {
					if _, isB := ci.Common().Value.(*ssa.Builtin); !isB {
						sc := ci.Common().StaticCallee()
						if _, isPass := m.pass[sc]; sc == nil || !isPass {
							hasCall = true
						}
					}
				}
				switch in.(type) {
				case *ssa.Lookup, *ssa.MapUpdate, *ssa.Store, *ssa.Range:
					hasCall = true // not a pure data pass-through
				}
			})
			if hasCall {
				continue
			}
			nres := f.Signature.Results().Len()
			srcs := make([]map[string]bool, nres)
			for i := range srcs {
				srcs[i] = map[string]bool{}
			}
			for _, b := range f.Blocks {
				if ret, ok := b.Instrs[len(b.Instrs)-1].(*ssa.Return); ok {
					for i := 0; i < nres && i < len(ret.Results); i++ {
						paramSources(ret.Results[i], map[ssa.Value]bool{}, srcs[i])
					}
				}
			}
			idx := make([][]int, nres)
			for r := range idx {
				for i, p := range f.Params {
					if srcs[r][p.Name()] {
						idx[r] = append(idx[r], i)
					}
				}
			}
			if len(idx[0]) > 0 {
				m.pass[f] = idx
				changed = true
			}
		}
	}
}

func (m *matchModel) add(v ssa.Value, r string) bool {
	if m.roles[v] == nil {
		m.roles[v] = map[string]bool{}
	}
	if m.roles[v][r] {
		return false
	}
	m.roles[v][r] = true
	return true
}

func (m *matchModel) addAll(dst ssa.Value, src map[string]bool) bool {
	ch := false
	for r := range src {
		if m.add(dst, r) {
			ch = true
		}
	}
	return ch
}

func (m *matchModel) has(v ssa.Value, r string) bool { return m.roles[v][r] }

// container returns the local storage a store address belongs to.
func containerOf(addr ssa.Value) ssa.Value {
	for {
		switch x := addr.(type) {
		case *ssa.IndexAddr:
			addr = x.X
		case *ssa.FieldAddr:
			addr = x.X
		case *ssa.Slice:
			addr = x.X
		default:
			return addr
		}
	}
}

func (m *matchModel) solveRoles() {
	isBindings := func(t types.Type) bool { return ssau.TypeIs(t, prog.Abs("match"), "Bindings") }
	for changed := true; changed; {
		changed = false
		up := func(dst ssa.Value, src ssa.Value) {
			if m.addAll(dst, m.roles[src]) {
				changed = true
			}
		}
		for _, f := range m.fns {
			ssau.Instrs(f, func(in ssa.Instruction) {
				switch x := in.(type) {
				case *ssa.UnOp:
					up(x, x.X)
				case *ssa.IndexAddr:
					up(x, x.X)
				case *ssa.Index:
					up(x, x.X)
				case *ssa.FieldAddr:
					if fv := fieldVar(x.X, x.Field); fv != nil {
						if m.addAll(x, m.fieldRoles[fv]) {
							changed = true
						}
					} else {
						up(x, x.X)
					}
				case *ssa.Field:
					up(x, x.X)
					if fv := fieldVar(x.X, x.Field); fv != nil && m.addAll(x, m.fieldRoles[fv]) {
						changed = true
					}
				case *ssa.Lookup:
					if isBindings(x.X.Type()) {
						// a bound value is "from the bindings", whatever was bound
						if m.add(x, "B") {
							changed = true
						}
					} else {
						up(x, x.X)
					}
				case *ssa.Range:
					up(x, x.X)
				case *ssa.Next:
					up(x, x.Iter)
				case *ssa.Extract:
					if cl, ok := x.Tuple.(*ssa.Call); ok {
						if sc := cl.Common().StaticCallee(); sc != nil && m.inSet[sc] {
							if idx, isPass := m.pass[sc]; isPass && x.Index < len(idx) {
								// a pass-through helper: the result is what this call was given
								for _, i := range idx[x.Index] {
									if i < len(cl.Common().Args) {
										up(x, cl.Common().Args[i])
									}
								}
								return
							}
							if rs := m.rets[sc]; x.Index < len(rs) {
								if m.addAll(x, rs[x.Index]) {
									changed = true
								}
							}
							return
						}
					}
					up(x, x.Tuple)
				case *ssa.TypeAssert:
					up(x, x.X)
				case *ssa.ChangeType:
					up(x, x.X)
				case *ssa.Convert:
					up(x, x.X)
				case *ssa.MakeInterface:
					up(x, x.X)
				case *ssa.ChangeInterface:
					up(x, x.X)
				case *ssa.Slice:
					up(x, x.X)
				case *ssa.BinOp:
					up(x, x.X)
					up(x, x.Y)
				case *ssa.Phi:
					for _, e := range x.Edges {
						up(x, e)
					}
				case *ssa.Store:
					if fv := storedField(x.Addr); fv != nil {
						if m.fieldRoles[fv] == nil {
							m.fieldRoles[fv] = map[string]bool{}
						}
						for r := range m.roles[x.Val] {
							if !m.fieldRoles[fv][r] {
								m.fieldRoles[fv][r] = true
								changed = true
							}
						}
					} else {
						up(containerOf(x.Addr), x.Val)
					}
				case *ssa.MapUpdate:
					if !isBindings(x.Map.Type()) {
						up(x.Map, x.Value)
						up(x.Map, x.Key)
					}
				case *ssa.Return:
					rs := m.rets[f]
					for len(rs) < len(x.Results) {
						rs = append(rs, map[string]bool{})
					}
					for i, r := range x.Results {
						for role := range m.roles[r] {
							if !rs[i][role] {
								rs[i][role] = true
								changed = true
							}
						}
					}
					m.rets[f] = rs
				case *ssa.Call:
					cm := x.Common()
					if b, ok := cm.Value.(*ssa.Builtin); ok {
						if b.Name() == "append" {
							for _, a := range cm.Args {
								up(x, a)
							}
						}
						return
					}
					callees := m.c.P.Callees(x)
					any := false
					for _, sc := range callees {
						if !m.inSet[sc] {
							continue
						}
						any = true
						args := cm.Args
						if cm.IsInvoke() {
							args = append([]ssa.Value{cm.Value}, args...)
						}
						for i, a := range args {
							if i < len(sc.Params) {
								up(sc.Params[i], a)
							}
						}
						if idx, isPass := m.pass[sc]; isPass && len(idx) == 1 {
							for _, i := range idx[0] {
								if i < len(args) {
									up(x, args[i])
								}
							}
						} else if rs := m.rets[sc]; len(rs) == 1 {
							if m.addAll(x, rs[0]) {
								changed = true
							}
						}
					}
					if !any {
						for _, a := range cm.Args {
							up(x, a)
						}
					}
				}
			})
		}
	}
}

// solveFresh: which functions return a container created by themselves (0),
// whose elements are themselves created by fresh-returning calls (1).
func (m *matchModel) solveFresh() {
	for _, f := range m.fns {
		m.fresh[f] = -1
	}
	var origin func(v ssa.Value, seen map[ssa.Value]bool) (ok bool, elems []ssa.Value)
	origin = func(v ssa.Value, seen map[ssa.Value]bool) (bool, []ssa.Value) {
		if seen[v] {
			return true, nil
		}
		seen[v] = true
		switch x := v.(type) {
		case *ssa.MakeMap, *ssa.MakeSlice:
			var elems []ssa.Value
			for _, r := range ssau.Referrers(v) {
				if mu, ok := r.(*ssa.MapUpdate); ok && mu.Map == v {
					elems = append(elems, mu.Value)
				}
			}
			return true, elems
		case *ssa.Slice:
			if al, ok := x.X.(*ssa.Alloc); ok {
				var elems []ssa.Value
				for _, r := range ssau.Referrers(al) {
					if ia, ok := r.(*ssa.IndexAddr); ok {
						for _, r2 := range ssau.Referrers(ia) {
							if st, ok := r2.(*ssa.Store); ok {
								elems = append(elems, st.Val)
							}
						}
					}
				}
				return true, elems
			}
			return origin(x.X, seen)
		case *ssa.Phi:
			ok := true
			var elems []ssa.Value
			for _, e := range x.Edges {
				o, el := origin(e, seen)
				ok = ok && o
				elems = append(elems, el...)
			}
			return ok, elems
		case *ssa.Call:
			if b, isB := x.Common().Value.(*ssa.Builtin); isB && b.Name() == "append" {
				ok, elems := origin(x.Common().Args[0], seen)
				if len(x.Common().Args) > 1 {
					// appended elements
					if sl, isS := x.Common().Args[1].(*ssa.Slice); isS {
						if al, isA := sl.X.(*ssa.Alloc); isA {
							for _, r := range ssau.Referrers(al) {
								if ia, ok := r.(*ssa.IndexAddr); ok {
									for _, r2 := range ssau.Referrers(ia) {
										if st, ok := r2.(*ssa.Store); ok {
											elems = append(elems, st.Val)
										}
									}
								}
							}
						} else {
							ok = false
						}
					} else {
						ok = false // append(a, b...) of an existing slice: elements not created here
					}
				}
				return ok, elems
			}
			if sc := x.Common().StaticCallee(); sc != nil && m.fresh[sc] >= 0 {
				return true, nil
			}
			return false, nil
		case *ssa.ChangeType:
			return origin(x.X, seen)
		}
		return false, nil
	}
	for changed := true; changed; {
		changed = false
		for _, f := range m.fns {
			lvl := 1
			nret := 0
			for _, b := range f.Blocks {
				ret, ok := b.Instrs[len(b.Instrs)-1].(*ssa.Return)
				if !ok || len(ret.Results) == 0 {
					continue
				}
				nret++
				ok0, elems := origin(ret.Results[0], map[ssa.Value]bool{})
				if !ok0 {
					lvl = -1
					break
				}
				for _, e := range elems {
					if !types.IsInterface(e.Type()) && !ssau.TypeIs(e.Type(), prog.Abs("match"), "Bindings") {
						continue
					}
					o, _ := origin(e, map[ssa.Value]bool{})
					if !o && lvl > 0 {
						lvl = 0
					}
				}
			}
			if nret == 0 || f.Signature.Results().Len() != 1 {
				lvl = -1
			} else {
				switch f.Signature.Results().At(0).Type().Underlying().(type) {
				case *types.Map, *types.Slice:
				default:
					lvl = -1
				}
			}
			if lvl != m.fresh[f] && lvl > m.fresh[f] {
				m.fresh[f] = lvl
				changed = true
			}
		}
	}
}

// derivDepth: v derives from parameter p at the returned depth (0 = p itself,
// 1 = an element of p, ...); ok=false if it does not derive from any parameter.
func derivDepth(v ssa.Value, seen map[ssa.Value]bool) (*ssa.Parameter, int, bool) {
	if seen[v] {
		return nil, 0, false
	}
	seen[v] = true
	switch x := v.(type) {
	case *ssa.Parameter:
		return x, 0, true
	case *ssa.ChangeType:
		return derivDepth(x.X, seen)
	case *ssa.Slice:
		return derivDepth(x.X, seen)
	case *ssa.UnOp:
		if ia, ok := x.X.(*ssa.IndexAddr); ok {
			p, d, ok := derivDepth(ia.X, seen)
			return p, d + 1, ok
		}
	case *ssa.Extract:
		if nx, ok := x.Tuple.(*ssa.Next); ok && x.Index == 2 {
			if rg, ok := nx.Iter.(*ssa.Range); ok {
				p, d, ok := derivDepth(rg.X, seen)
				return p, d + 1, ok
			}
		}
	case *ssa.Phi:
		for _, e := range x.Edges {
			if p, d, ok := derivDepth(e, seen); ok {
				return p, d, ok
			}
		}
	}
	return nil, 0, false
}

func paramIdx(p *ssa.Parameter) int {
	for i, q := range p.Parent().Params {
		if q == p {
			return i
		}
	}
	return -1
}

func (m *matchModel) solveWriters() {
	isBindings := func(t types.Type) bool { return ssau.TypeIs(t, prog.Abs("match"), "Bindings") }
	for _, f := range m.fns {
		m.writers[f] = map[[2]int]bool{}
	}
	for changed := true; changed; {
		changed = false
		for _, f := range m.fns {
			ssau.Instrs(f, func(in ssa.Instruction) {
				switch x := in.(type) {
				case *ssa.MapUpdate:
					if !isBindings(x.Map.Type()) {
						return
					}
					if p, d, ok := derivDepth(x.Map, map[ssa.Value]bool{}); ok {
						k := [2]int{paramIdx(p), d}
						if !m.writers[f][k] {
							m.writers[f][k] = true
							changed = true
						}
					}
				case ssa.CallInstruction:
					cm := x.Common()
					if b, isB := cm.Value.(*ssa.Builtin); isB {
						if b.Name() == "delete" && isBindings(cm.Args[0].Type()) {
							if p, d, ok := derivDepth(cm.Args[0], map[ssa.Value]bool{}); ok {
								k := [2]int{paramIdx(p), d}
								if !m.writers[f][k] {
									m.writers[f][k] = true
									changed = true
								}
							}
						}
						return
					}
					for _, sc := range m.c.P.Callees(x) {
						if !m.inSet[sc] {
							continue
						}
						for k := range m.writers[sc] {
							if k[0] >= len(cm.Args) {
								continue
							}
							if p, d, ok := derivDepth(cm.Args[k[0]], map[ssa.Value]bool{}); ok {
								nk := [2]int{paramIdx(p), d + k[1]}
								if !m.writers[f][nk] {
									m.writers[f][nk] = true
									changed = true
								}
							}
						}
					}
				}
			})
		}
	}
}

// loopOperand returns the value a loop iterates over: the Range operand of a
// map range, or the slice indexed by the loop's induction variable.
func loopOperand(l *flow.Loop) ssa.Value {
	for _, in := range l.Header.Instrs {
		if nx, ok := in.(*ssa.Next); ok {
			if rg, ok := nx.Iter.(*ssa.Range); ok {
				return rg.X
			}
		}
	}
	// rangeindex loop: header phi i; len(x) compared; element &x[i+1]
	for _, in := range l.Header.Instrs {
		phi, ok := in.(*ssa.Phi)
		if !ok {
			continue
		}
		for b := range l.Blocks {
			for _, in2 := range b.Instrs {
				if ia, ok := in2.(*ssa.IndexAddr); ok {
					idx := ia.Index
					if bo, ok := idx.(*ssa.BinOp); ok && bo.X == ssa.Value(phi) {
						return ia.X
					}
					if idx == ssa.Value(phi) {
						return ia.X
					}
				}
			}
		}
	}
	return nil
}

// disjunctive: the loop enumerates alternatives — candidate binding sets, or
// members of the message (fact) — rather than parts of the pattern.
func (m *matchModel) disjunctive(l *flow.Loop) (bool, string) {
	op := loopOperand(l)
	if op == nil {
		return false, ""
	}
	t := op.Type().Underlying()
	if sl, ok := t.(*types.Slice); ok {
		if ssau.TypeIs(sl.Elem(), prog.Abs("match"), "Bindings") {
			return true, "candidate binding sets"
		}
		if s2, ok := sl.Elem().Underlying().(*types.Slice); ok && ssau.TypeIs(s2.Elem(), prog.Abs("match"), "Bindings") {
			return true, "lists of candidate binding sets"
		}
	}
	if m.has(op, "F") && !m.has(op, "P") {
		return true, "members of the message"
	}
	return false, ""
}

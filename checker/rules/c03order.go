package rules

import (
	"fmt"
	"go/types"
	"sort"
	"strings"

	"golang.org/x/tools/go/ssa"

	"sheensverif/internal/flow"
	"sheensverif/internal/ssau"
)

// c03Order: a loop ranging directly over a Go map must not have early exits of
// two different outcome classes: which one is taken would depend on the
// iteration order the runtime happens to choose.
func c03Order(c *Ctx) {
	m := c.newMatchModel()
	errT := types.Universe.Lookup("error").Type()
	n := 0
	for _, f := range m.fns {
		loops := flow.Loops(f)
		for _, l := range loops {
			var rg *ssa.Range
			for _, in := range l.Header.Instrs {
				if nx, ok := in.(*ssa.Next); ok {
					if r, ok := nx.Iter.(*ssa.Range); ok {
						if _, isMap := r.X.Type().Underlying().(*types.Map); isMap {
							rg = r
						}
					}
				}
			}
			if rg == nil {
				continue
			}
			n++
			classes := map[string]string{}
			for _, ex := range l.Exits() {
				from, to := ex[0], ex[1]
				if from == l.Header {
					continue
				}
				ret, isRet := to.Instrs[len(to.Instrs)-1].(*ssa.Return)
				if !isRet {
					classes["leaves the loop early"] = c.pos(from.Instrs[len(from.Instrs)-1])
					continue
				}
				last := ret.Results[len(ret.Results)-1]
				isErr := types.Identical(last.Type(), errT) && !ssau.IsNilConst(last)
				switch {
				case isErr:
					classes["error"] = c.pos(ret)
				case ssau.IsNilConst(ret.Results[0]):
					classes["no match"] = c.pos(ret)
				default:
					classes["result"] = c.pos(ret)
				}
			}
			role := "map"
			switch {
			case m.has(rg.X, "P"):
				role = "the pattern map"
			case m.has(rg.X, "F"):
				role = "a message map"
			case isBindingsT(rg.X.Type()):
				role = "bindings"
			}
			var cs []string
			for k, p := range classes {
				cs = append(cs, k+" ("+p+")")
			}
			sort.Strings(cs)
			bad := classes["error"] != "" && classes["no match"] != ""
			if d, _ := m.disjunctive(l); d && classes["leaves the loop early"] != "" {
				// a range over the alternatives themselves that stops at the first taker: which one is taken follows map order
				bad = true
			}
			c.R.Check(!bad, "C03-R3", fmt.Sprintf("%s: range over %s", fname(f), role), c.pos(rg), fmt.Sprintf("early exits of at most one failure class: %s", strings.Join(cs, ", ")),
				"the outcome depends on which key the runtime visits first (an error or a plain no-match; or a loop over alternatives that stops at the first one that fits): "+strings.Join(cs, ", "))
		}
	}
	if n == 0 {
		c.R.Break("C03-R3: no map range found in package match")
	}
	if m.branchPrivacy("C03-R5") == 0 {
		c.R.Break("C03-R5: no call inside a loop over alternatives found")
	}
}

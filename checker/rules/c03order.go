package rules

func c03Order(c *Ctx) {}

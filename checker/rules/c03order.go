package rules

import (
	"fmt"
	"go/types"
	"sort"
	"strings"

	"golang.org/x/tools/go/ssa"

	"sheensverif/internal/flow"
	"sheensverif/internal/ssau"
)

// c03Order: a loop ranging directly over a Go map must not have early exits of
// two different outcome classes: which one is taken would depend on the
// iteration order the runtime happens to choose.
func c03Order(c *Ctx) {
	m := c.newMatchModel()
	errT := types.Universe.Lookup("error").Type()
	n, n11 := 0, 0
	for _, f := range m.fns {
		loops := flow.Loops(f)
		for _, l := range loops {
			var rg *ssa.Range
			for _, in := range l.Header.Instrs {
				if nx, ok := in.(*ssa.Next); ok {
					if r, ok := nx.Iter.(*ssa.Range); ok {
						if _, isMap := r.X.Type().Underlying().(*types.Map); isMap {
							rg = r
						}
					}
				}
			}
			if rg == nil {
				continue
			}
			n++
			classes := map[string]string{}
			for _, ex := range l.Exits() {
				from, to := ex[0], ex[1]
				if from == l.Header {
					continue
				}
				ret, isRet := to.Instrs[len(to.Instrs)-1].(*ssa.Return)
				if !isRet {
					classes["leaves the loop early"] = c.pos(from.Instrs[len(from.Instrs)-1])
					continue
				}
				last := ret.Results[len(ret.Results)-1]
				isErr := types.Identical(last.Type(), errT) && !ssau.IsNilConst(last)
				switch {
				case isErr:
					classes["error"] = c.pos(ret)
				case ssau.IsNilConst(ret.Results[0]):
					classes["no match"] = c.pos(ret)
				default:
					classes["result"] = c.pos(ret)
				}
			}
			role := "map"
			switch {
			case m.has(rg.X, "P"):
				role = "the pattern map"
			case m.has(rg.X, "F"):
				role = "a message map"
			case isBindingsT(rg.X.Type()):
				role = "bindings"
			}
			var cs []string
			for k, p := range classes {
				cs = append(cs, k+" ("+p+")")
			}
			sort.Strings(cs)
			bad := classes["error"] != "" && classes["no match"] != ""
			if d, _ := m.disjunctive(l); d && classes["leaves the loop early"] != "" {
				// a range over the alternatives themselves that stops at the first taker: which one is taken follows map order
				bad = true
			}
			if c03Prevalidated(c, m, f, l, loops, rg, errT) {
				n11++
			}
			c.R.Check(!bad, "C03-R3", fmt.Sprintf("%s: range over %s", fname(f), role), c.pos(rg), fmt.Sprintf("early exits of at most one failure class: %s", strings.Join(cs, ", ")),
				"the outcome depends on which key the runtime visits first (an error or a plain no-match; or a loop over alternatives that stops at the first one that fits): "+strings.Join(cs, ", "))
		}
	}
	if n == 0 {
		c.R.Break("C03-R3: no map range found in package match")
	} else if n11 == 0 {
		c.R.Discharge("C03-R11", "match: no error about a ranged map as a whole is raised inside a loop that also has a no-match exit", "match/match.go", fmt.Sprintf("%d ranges over maps examined", n))
	}
	if m.branchPrivacy("C03-R5") == 0 {
		c.R.Break("C03-R5: no call inside a loop over alternatives found")
	}
}

// c03Prevalidated: C03-R11.  An error exit inside a range over a map whose error does not come from matching a
// member against the message (errors.New and the like, or a callee that is handed no message part) is an error about
// the map as a whole that is found at whichever key the runtime visits first; a plain no-match exit of the same loop
// at another key then makes the outcome follow the iteration order.  The unchanged tree has such exits (a variable
// among several keys) and they are sound only because the whole map is validated before the loop is entered: a call
// that is given the ranged map and returns just an error, in a block that dominates the loop header (or a separate
// loop over the same map with an error exit, the validation spelled out in place).  The rule demands that validation
// wherever such an exit exists next to a no-match exit.
func c03Prevalidated(c *Ctx, m *matchModel, f *ssa.Function, l *flow.Loop, loops []*flow.Loop, rg *ssa.Range, errT types.Type) bool {
	seenB := map[*ssa.BasicBlock]bool{}
	var whole func(v ssa.Value, seen map[ssa.Value]bool) string
	whole = func(v ssa.Value, seen map[ssa.Value]bool) string {
		if v == nil || seen[v] || ssau.IsNilConst(v) {
			return ""
		}
		seen[v] = true
		switch x := v.(type) {
		case *ssa.Phi:
			for _, e := range x.Edges {
				if w := whole(e, seen); w != "" {
					return w
				}
			}
		case *ssa.Extract:
			return whole(x.Tuple, seen)
		case *ssa.MakeInterface:
			return whole(x.X, seen)
		case *ssa.Call:
			sc := x.Common().StaticCallee()
			if sc == nil {
				return ""
			}
			if sc.Pkg != nil && (sc.Pkg.Pkg.Path() == "errors" || sc.Pkg.Pkg.Path() == "fmt") {
				return sc.Name() + " at " + c.pos(x)
			}
			if !l.Blocks[x.Block()] && !seenB[x.Block()] {
				return ""
			}
			for _, a := range x.Common().Args {
				if m.has(a, "F") {
					return ""
				}
			}
			if len(x.Common().Args) > 0 {
				return fname(sc) + " (given no part of the message) at " + c.pos(x)
			}
		}
		return ""
	}
	wholeErr, noMatch := "", false
	// the ways out of the loop other than its normal end: every return that can be reached from the target of an
	// exit edge without re-entering the loop (a branch whose every way ends in a return is not part of the natural loop)
	var work []*ssa.BasicBlock
	for _, ex := range l.Exits() {
		if ex[0] != l.Header {
			work = append(work, ex[1])
		}
	}
	for len(work) > 0 {
		b := work[len(work)-1]
		work = work[:len(work)-1]
		if seenB[b] || l.Blocks[b] {
			continue
		}
		seenB[b] = true
		work = append(work, b.Succs...)
		ret, isRet := b.Instrs[len(b.Instrs)-1].(*ssa.Return)
		if !isRet || len(ret.Results) == 0 {
			continue
		}
		last := ret.Results[len(ret.Results)-1]
		if types.Identical(last.Type(), errT) && !ssau.IsNilConst(last) {
			if w := whole(last, map[ssa.Value]bool{}); w != "" && wholeErr == "" {
				wholeErr = w
			}
		} else if len(ret.Results) >= 2 && ssau.IsNilConst(ret.Results[0]) {
			noMatch = true
		}
	}
	if wholeErr == "" || !noMatch {
		return false
	}
	validated := ""
	ssau.Instrs(f, func(in ssa.Instruction) {
		cl, ok := in.(*ssa.Call)
		if !ok || validated != "" || in.Parent() != f || l.Blocks[cl.Block()] || !cl.Block().Dominates(l.Header) {
			return
		}
		if !types.Identical(cl.Type(), errT) {
			return
		}
		for _, a := range cl.Common().Args {
			if a == rg.X {
				validated = "validated as a whole by " + ssau.CalleeName(cl) + " at " + c.pos(cl)
			}
		}
	})
	for _, l2 := range loops {
		if validated != "" || l2 == l || l.Blocks[l2.Header] || !l2.Header.Dominates(l.Header) {
			continue
		}
		if op := loopOperand(l2); op == nil || op != rg.X {
			continue
		}
		for _, ex := range l2.Exits() {
			if ret, isRet := ex[1].Instrs[len(ex[1].Instrs)-1].(*ssa.Return); isRet && ex[0] != l2.Header && len(ret.Results) > 0 {
				if last := ret.Results[len(ret.Results)-1]; types.Identical(last.Type(), errT) && !ssau.IsNilConst(last) {
					validated = "validated as a whole by the loop at " + c.pos(l2.Header.Instrs[0])
				}
			}
		}
	}
	c.R.Check(validated != "", "C03-R11", fmt.Sprintf("%s: errors about the ranged map as a whole", fname(f)), c.pos(rg), validated+"; the exit inside the loop ("+wholeErr+") cannot be met first at one key and missed at another",
		"an error that concerns the whole map ("+wholeErr+") is raised inside the range over it, next to a plain no-match exit, and the map is not validated before the loop: which of the two comes out depends on the key visited first")
	return true
}

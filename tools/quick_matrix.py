#!/usr/bin/env python3
"""Fast regression matrix that never touches /repo: every seeded change and every refactoring is applied
to its own scratch copy of /repo HEAD (git archive) and checked with a prebuilt checker binary.
usage: quick_matrix.py <binary> [--all] [--write] [--names a,b] [--extra DIR [--only-extra]] [--extra-seeds DIR] [Cxx ...]
By default a patch is checked with its own property's check only (seeds: target or `retargeted`);
--all runs all 20 checks on each patch.  Prints seeds that are not reported and refactorings that are."""
import glob, json, os, subprocess, sys, tempfile, shutil
from concurrent.futures import ThreadPoolExecutor
args = sys.argv[1:]
binary = args.pop(0)
allp = '--all' in args
if allp: args.remove('--all')
write = '--write' in args
if write: args.remove('--write')
only_extra = '--only-extra' in args
if only_extra: args.remove('--only-extra')
extra = None
if '--extra' in args:
    i = args.index('--extra'); extra = args[i+1]; del args[i:i+2]
names = None
if '--names' in args:
    # --names C02-22,C04-22: only these seeds/refactorings; with --write --all the results are merged into RESULTS.json
    i = args.index('--names'); names = set(args[i+1].split(',')); del args[i:i+2]
only = args
props = ['C%02d' % i for i in range(1, 21)]
env = dict(os.environ, GOFLAGS='-mod=mod', GOPROXY='off', GOSUMDB='off', GOTOOLCHAIN='local', VERIF_BIN=binary)
env.pop('GOWORK', None)
jobs = []
crashes = []
for d in sorted(glob.glob('/verif/seeded/C*-*')):
    n = os.path.basename(d); t = n[:3]
    try: t = json.load(open(d + '/meta.json')).get('retargeted', t)
    except Exception: pass
    jobs.append(('seed', n, t, d + '/patch.diff'))
for d in sorted(glob.glob('/verif/refactors/C*-*')):
    n = os.path.basename(d); jobs.append(('refactor', n, n[:3], d + '/patch.diff'))
for d in sorted(glob.glob('/verif/seeded/retired/C*-*')):
    n = os.path.basename(d); jobs.append(('refactor', 'retired-' + n, n[:3], d + '/patch.diff'))
if extra:
    for pf in sorted(glob.glob(extra + '/C*/*/patch.diff')):
        n = 'x-' + '-'.join(pf.split('/')[-3:-1]); jobs.append(('refactor', n, pf.split('/')[-3], pf))
xseeds = None
if '--extra-seeds' in args:
    i = args.index('--extra-seeds'); xseeds = args[i+1]; del args[i:i+2]
    only = args
    jobs = []
    for pf in sorted(glob.glob(xseeds + '/C*/*/patch.diff')):
        n = 'x-' + '-'.join(pf.split('/')[-3:-1]); jobs.append(('seed', n, pf.split('/')[-3], pf))
if only_extra:
    jobs = [j for j in jobs if j[1].startswith('x-')]
if names:
    jobs = [j for j in jobs if j[1] in names]
if only:
    jobs = [j for j in jobs if allp and True or j[2] in only] if not allp else jobs
    if allp: props = only
def run(job):
    kind, name, target, pf = job
    d = tempfile.mkdtemp(prefix='qm.', dir='/tmp')
    try:
        subprocess.run('git -C /repo archive HEAD | tar -x -C %s && cd %s && git init -q . && git apply %s </dev/null && mkdir -p .vo && cp /verif/known_findings.json .vo/' % (d, d, pf), shell=True, check=True, capture_output=True)
        fired = {}
        for p in (props if allp else [target]):
            r = subprocess.run('/verif/check %s quick' % p, shell=True, capture_output=True, text=True, env=dict(env, VERIF_REPO=d, VERIF_DIR=d + '/.vo'))
            if r.returncode != 0:
                fired[p] = [l.strip()[:260] for l in r.stdout.splitlines() if l.startswith('  VIOLATED') or l.startswith('  UNDECIDED')][:3]
                if not fired[p]:
                    # a non-zero exit without a report line is a crash of the checker, not a report
                    crashes.append((name, p, (r.stderr or r.stdout)[-300:]))
        return job, fired, None
    except subprocess.CalledProcessError as e:
        return job, {}, 'apply failed: ' + (e.stderr or b'').decode()[-200:]
    finally:
        shutil.rmtree(d, ignore_errors=True)
# the Go build cache grows with every scratch copy (cache keys include paths): trim it before it fills the disk
try:
    sz = int(subprocess.run('du -sm /root/.cache/go-build 2>/dev/null | cut -f1', shell=True, capture_output=True, text=True).stdout.strip() or 0)
    if sz > 40000:
        subprocess.run('go clean -cache', shell=True, env=env)
except Exception:
    pass
bad = 0
seedres, refres = {}, {}
with ThreadPoolExecutor(14) as ex:
    for job, fired, err in ex.map(run, jobs):
        kind, name, target, _ = job
        if kind == 'seed' and not name.startswith('x-'):
            seedres[name] = {'target': target, 'fired': sorted(fired), 'caught_by_target': target in fired, 'detail': fired} if not err else {'error': err}
        if kind == 'refactor' and not name.startswith('x-') and not name.startswith('retired-'):
            refres[name] = {'fired': sorted(fired), 'detail': fired} if not err else {'error': err}
        if err:
            print(kind, name, err); bad += 1; continue
        if kind == 'seed' and target not in fired:
            print('SEED NOT REPORTED by', target, ':', name, 'fired:', sorted(fired)); bad += 1
        elif kind == 'seed' and xseeds:
            print('seed reported:', name, sorted(fired))
        if kind == 'refactor' and fired:
            print('FALSE ALARM', name, sorted(fired)); bad += 1
            for p, ls in fired.items():
                for l in ls: print('     ', l)
for name, p, tail in crashes:
    print('CHECK CRASHED', p, 'on', name, ':', tail.replace('\n', ' | ')[-200:]); bad += 1
print('jobs %d, discrepancies %d' % (len(jobs), bad))

if write and allp and not only and names:
    for path, res in (('/verif/seeded/RESULTS.json', seedres), ('/verif/refactors/RESULTS.json', refres)):
        old = json.load(open(path)); old.update(res)
        json.dump(old, open(path, 'w'), indent=1, sort_keys=True)
    print('merged %d seed and %d refactoring results' % (len(seedres), len(refres)))
elif write and allp and not only:
    json.dump(seedres, open('/verif/seeded/RESULTS.json', 'w'), indent=1, sort_keys=True)
    json.dump(refres, open('/verif/refactors/RESULTS.json', 'w'), indent=1, sort_keys=True)
    tot = len(seedres); caught = sum(1 for v in seedres.values() if v.get('fired')); own = sum(1 for v in seedres.values() if v.get('caught_by_target'))
    print('seeds %d, caught by some check %d, caught by the targeted property check %d' % (tot, caught, own))
    print('refactorings %d, false alarms on %d' % (len(refres), sum(1 for v in refres.values() if v.get('fired'))))

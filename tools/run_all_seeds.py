#!/usr/bin/env python3
"""Runs every claimed check against every seeded change in /verif/seeded (apply, check, revert).
Writes /verif/seeded/RESULTS.json: which checks fired on which change."""
import json, os, subprocess, sys, glob
from concurrent.futures import ThreadPoolExecutor
m = json.load(open('/verif/MANIFEST.json'))
checks = [c['property_id'] for c in m['checks']]
only = sys.argv[1:]
st = subprocess.run('git -C /repo status --porcelain', shell=True, capture_output=True, text=True).stdout.strip()
if st:
    print('REPO DIRTY, refusing:', st); sys.exit(2)
os.makedirs('/tmp/seedrun', exist_ok=True)
subprocess.run('cp /verif/known_findings.json /tmp/seedrun/', shell=True)
subprocess.run('cd /verif && ./check C20 quick >/dev/null 2>&1; cp /verif/bin/sheens-verif /tmp/seedrun/sheens-verif', shell=True)
env = dict(os.environ, VERIF_BIN='/tmp/seedrun/sheens-verif', VERIF_DIR='/tmp/seedrun')
# baseline must be silent
res = {}
resfile = '/verif/seeded/RESULTS.json'
if os.path.exists(resfile):
    res = json.load(open(resfile))
for d in sorted(glob.glob('/verif/seeded/C*-*')):
    name = os.path.basename(d)
    if only and not any(name.startswith(o) for o in only):
        continue
    r = subprocess.run('git -C /repo apply %s/patch.diff' % d, shell=True, capture_output=True, text=True)
    if r.returncode != 0:
        res[name] = {'error': 'patch does not apply: ' + r.stderr[-300:]}
        print(name, 'APPLY FAILED'); continue
    fired, detail = [], {}
    try:
        with ThreadPoolExecutor(10) as ex:
            outs = list(ex.map(lambda c: subprocess.run('./check %s quick' % c, shell=True, cwd='/verif', capture_output=True, text=True, env=env), checks))
        for c, p in zip(checks, outs):
            if p.returncode != 0:
                fired.append(c)
                detail[c] = [l.strip()[:300] for l in p.stdout.splitlines() if l.startswith('  VIOLATED') or l.startswith('  UNDECIDED')][:3]
    finally:
        subprocess.run('git -C /repo checkout -- . && git -C /repo clean -fdq', shell=True)
    tgt = name.split('-')[0]
    try:
        tgt = json.load(open(os.path.join(d, 'meta.json'))).get('retargeted', tgt)
    except Exception:
        pass
    res[name] = {'target': tgt, 'fired': fired, 'caught_by_target': tgt in fired, 'detail': detail}
    print(name, 'fired:', fired)
json.dump(res, open(resfile, 'w'), indent=1, sort_keys=True)
tot = len(res); caught = sum(1 for v in res.values() if v.get('fired')); bytarget = sum(1 for v in res.values() if v.get('caught_by_target'))
print('seeds %d, caught by some check %d, caught by the targeted property check %d' % (tot, caught, bytarget))

# Table of claimed properties (exec'd by gen_manifest.py).
claim("C03", "points-to/write-effect analysis over SSA (Andersen, field-sensitive) + alias query on results + map-range exit-class rule",
      "Decides for all inputs and paths at once that no instruction reachable from Matcher.Match/Matches/match.Match can write the pattern, the message, the given bindings or a package-level variable, that no returned binding set is the given map, and that no loop ranging over a Go map has exits of two outcome classes. A necessary structural part of purity; does not decide determinism of the result multiset.",
      "DESIGN.md 4 C03")
claim("C06", "points-to/write-effect analysis over SSA (Andersen, field-sensitive, guarded-phi pruning) + alias query on returned states",
      "Decides for all specs, states and messages that no instruction in the closure of Spec.Step/Spec.Walk (core, match; callbacks cut by A2) can write through any argument or to a package-level variable, and that the bindings map of every returned state is never the given state's map. Necessary structural part of 'the engine holds no state'; does not decide equality of repeated runs.",
      "DESIGN.md 4 C06")

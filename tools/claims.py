# Table of claimed properties (exec'd by gen_manifest.py).
claim("C03", "points-to/write-effect analysis over SSA (Andersen, field-sensitive) + alias query on results + map-range exit-class rule",
      "Decides for all inputs and paths at once that no instruction reachable from Matcher.Match/Matches/match.Match can write the pattern, the message, the given bindings or a package-level variable, that no returned binding set is the given map, and that no loop ranging over a Go map has exits of two outcome classes. A necessary structural part of purity; does not decide determinism of the result multiset.",
      "DESIGN.md 4 C03")
claim("C06", "points-to/write-effect analysis over SSA (Andersen, field-sensitive, guarded-phi pruning) + alias query on returned states",
      "Decides for all specs, states and messages that no instruction in the closure of Spec.Step/Spec.Walk (core, match; callbacks cut by A2) can write through any argument or to a package-level variable, and that the bindings map of every returned state is never the given state's map. Necessary structural part of 'the engine holds no state'; does not decide equality of repeated runs.",
      "DESIGN.md 4 C06")
claim("C10", "points-to/escape analysis over SSA from Interpreter.Exec + type scan for runtime storage + write-effect analysis",
      "Decides for all scripts and schedules that the goja runtime of an execution is created in that activation (no field, global, pool or map can carry one over), that nothing reachable from the caller's bindings and not the props map itself is reachable from any value handed to the runtime, and that Exec writes nothing shared. Necessary structural part of isolation; goja internals are trusted (A3).",
      "DESIGN.md 4 C10")
claim("C12", "write-effect analysis (E1) + who-may-write/reachability over resolved call edges + atomic-only field use + deep-copy alias query",
      "Decides that processing never writes the shared spec or globals, that no spec-writing function is reachable from Step/Walk/SetSpec/Spec, that the swap pointer is only touched atomically, that Step/Walk never re-read the current version, and that Spec.Copy shares no spec structure with the original. Necessary structural part of immutability and atomic swap for all schedules; race-freedom inside goja is not decided.",
      "DESIGN.md 4 C12")

#!/usr/bin/env python3
"""Copies confirmed seeded changes from $SEED_BASE (default /tmp/out) into /verif/seeded/<id>-<i+offset>/.
usage: SEED_BASE=/tmp/out2 save_seeds.py [offset]"""
import json, os, glob, shutil, re, sys
BASE = os.environ.get("SEED_BASE", "/tmp/out")
OFF = int(sys.argv[1]) if len(sys.argv) > 1 else 0
for rf in sorted(glob.glob(BASE + '/C*/[0-9]/result.json')):
    r = json.load(open(rf))
    if r.get('verdict') != 'confirmed':
        print('skip', rf, r.get('verdict')); continue
    src = os.path.dirname(rf)
    pid, idx = r['property'], r['index']
    dst = '/verif/seeded/%s-%d' % (pid, int(idx) + OFF)
    os.makedirs(dst, exist_ok=True)
    open(dst + '/patch.diff', 'w').write(r['patch_on_head'])
    for f in glob.glob(src + '/*_test.go'):
        # stored with a .txt suffix so that no Go tool ever picks them up under /verif
        shutil.copy(f, dst + '/' + os.path.basename(f) + '.txt')
    notes = open(src + '/notes.md').read() if os.path.exists(src + '/notes.md') else ''
    open(dst + '/notes.md', 'w').write(notes)
    needs = ''
    m = re.search(r'(?is)(needs?|manifest)[^\n]*\n(.{0,600})', notes)
    meta = {
        'property': pid,
        'breaks': 'see notes.md (written by the sub-agent that produced the change, given only the property text)',
        'base_commit': r['base'],
        'demo': [{'dir': d, 'file': f} for d, f in r.get('demo_placed', [])],
        'confirmed': {
            'how': 'tools/confirm_seed.py: scratch worktree of /repo HEAD; git apply --3way patch; go build ./...; go test -vet=off -count=1 ./... (passes with the change); demo tests fail with the change and pass after git checkout -- .',
            'suite_with_change': 'pass',
            'demo_with_change': 'fail',
            'demo_without_change': 'pass',
        },
        'demo_output_with_change': r['steps']['demo_with_change']['out'][-800:],
    }
    json.dump(meta, open(dst + '/meta.json', 'w'), indent=1)
    print('saved', dst)

#!/usr/bin/env python3
"""Confirms a seeded breaking change: applies /tmp/out/<ID>/<i>/patch.diff to a scratch
worktree of /repo HEAD, checks that the tree builds and the existing suite passes with it,
that the demonstration fails with it and passes without it.  Writes result.json next to the patch.
usage: confirm_seed.py C01 1 [--keep]"""
import json, os, re, subprocess, sys, glob, shutil, time

ENV = dict(os.environ, GOFLAGS="-mod=mod", GOPROXY="off", GOSUMDB="off", GOTOOLCHAIN="local")
ENV.pop("GOWORK", None)
PKGDIR = {"match": "match", "core": "core", "ecmascript": "interpreters/ecmascript", "sio": "sio", "tools": "tools",
          "expect": "tools/expect", "crew": "crew", "noop": "interpreters/noop", "interpreters": "interpreters", "mqshell": "sio/mqshell"}

def run(cmd, cwd, timeout=900):
    p = subprocess.run(cmd, cwd=cwd, env=ENV, shell=True, stdout=subprocess.PIPE, stderr=subprocess.STDOUT, text=True, timeout=timeout)
    return p.returncode, p.stdout

def main():
    pid, idx = sys.argv[1], sys.argv[2]
    src = "%s/%s/%s" % (os.environ.get("SEED_BASE", "/tmp/out"), pid, idx)
    wt = "/tmp/cf/%s_%s" % (pid, idx)
    res = {"property": pid, "index": idx, "base": None, "steps": {}}
    os.makedirs("/tmp/cf", exist_ok=True)
    subprocess.run("git -C /repo worktree remove --force %s" % wt, shell=True, stdout=subprocess.DEVNULL, stderr=subprocess.DEVNULL)
    rc, out = run("git -C /repo worktree add --detach %s HEAD" % wt, "/")
    if rc != 0:
        print(out); sys.exit(2)
    try:
        res["base"] = run("git rev-parse HEAD", wt)[1].strip()
        rc, out = run("git apply --3way %s/patch.diff" % src, wt)
        res["steps"]["apply"] = {"rc": rc, "out": out[-2000:]}
        if rc != 0:
            res["verdict"] = "patch-does-not-apply"
            return res
        run("git reset -q", wt)  # unstage (3way stages)
        run("git add -N .", wt)  # so that files the change adds are part of the stored patch
        # save the patch as it applies to the current base
        res["patch_on_head"] = run("git diff", wt)[1]
        rc, out = run("go build ./... && go vet ./... >/dev/null 2>&1; go build ./...", wt)
        res["steps"]["build"] = {"rc": rc, "out": out[-2000:]}
        if rc != 0:
            res["verdict"] = "does-not-build"; return res
        rc, out = run("go test -vet=off -count=1 ./... 2>&1 | grep -v 'no test files'", wt)
        ok = ("FAIL" not in out) and ("panic:" not in out)
        res["steps"]["suite_with_change"] = {"pass": ok, "out": out[-3000:]}
        if not ok:
            res["verdict"] = "suite-fails-with-change"; return res
        demos = [f for f in glob.glob(src + "/*_test.go")]
        if not demos:
            res["verdict"] = "no-demo"; return res
        placed = []
        for d in demos:
            txt = open(d).read()
            m = re.search(r"^package\s+(\w+)", txt, re.M)
            pk = m.group(1)
            if pk.endswith("_test"): pk = pk[:-5]
            dest = PKGDIR.get(pk)
            if pk == "main":
                notes = open(src + "/notes.md").read() if os.path.exists(src + "/notes.md") else ""
                mm = re.search(r"(cmd/\w+)/" + re.escape(os.path.basename(d)), notes)
                dest = mm.group(1) if mm else "cmd/mcrew"
            if dest is None:
                res["verdict"] = "unknown-demo-package " + pk; return res
            shutil.copy(d, os.path.join(wt, dest, os.path.basename(d)))
            placed.append((dest, os.path.basename(d)))
        res["demo_placed"] = placed
        pkgs = " ".join(sorted(set("./" + p[0] + "/" for p in placed)))
        race = "-race" if "-race" in (open(src + "/notes.md").read() if os.path.exists(src + "/notes.md") else "") and not os.path.exists(src + "/NO_RACE") else ""
        def demo_run():
            names = []
            for dest, f in placed:
                names += re.findall(r"^func (Test\w+)\(", open(os.path.join(wt, dest, f)).read(), re.M)
            pat = "^(" + "|".join(names) + ")$"
            rc, out = run("go test -vet=off -count=1 -run '%s' %s 2>&1" % (pat, pkgs), wt)
            rc2, out2 = (0, "")
            if race:
                rc2, out2 = run("go test -vet=off -race -count=1 -run '%s' %s 2>&1" % (pat, pkgs), wt)
            return (rc == 0 and rc2 == 0), (out + out2)[-3000:]
        ok_with, out_with = demo_run()
        res["steps"]["demo_with_change"] = {"pass": ok_with, "out": out_with}
        # revert source change, keep demo
        rc, out = run("git checkout -- . ", wt)
        ok_without, out_without = demo_run()
        res["steps"]["demo_without_change"] = {"pass": ok_without, "out": out_without}
        if (not ok_with) and ok_without:
            res["verdict"] = "confirmed"
        else:
            res["verdict"] = "demo-not-discriminating (with=%s without=%s)" % (ok_with, ok_without)
        return res
    finally:
        json.dump(res, open(src + "/result.json", "w"), indent=1)
        print(pid, idx, res.get("verdict"))
        if "--keep" not in sys.argv:
            subprocess.run("git -C /repo worktree remove --force %s" % wt, shell=True, stdout=subprocess.DEVNULL, stderr=subprocess.DEVNULL)

main()

#!/usr/bin/env python3
"""Regenerates section 9 of DESIGN.md from seeded/RESULTS.json and seeded/DESCRIPTIONS.json."""
import json
r=json.load(open('/verif/seeded/RESULTS.json'))
desc=json.load(open('/verif/seeded/DESCRIPTIONS.json'))
rows=[]
for k in sorted(r):
    v=r[k]
    fired=', '.join(v.get('fired',[])) or '—'
    mark='✓' if v.get('caught_by_target') else ('(other)' if v.get('fired') else '✗')
    rows.append('| %s | %s | %s | %s |'%(k,desc.get(k,''),fired,mark))
tot=len(r); some=sum(1 for v in r.values() if v.get('fired')); tg=sum(1 for v in r.values() if v.get('caught_by_target'))
p='/verif/DESIGN.md'
s=open(p).read()
a=s.index('| seed | change | checks that report it | by its own property\'s check |')
b=s.index('Checks strengthened because a seed was first missed')
s=s[:a]+'| seed | change | checks that report it | by its own property\'s check |\n|------|--------|-----------------------|-----------------------------|\n'+'\n'.join(rows)+'\n\n'+s[b:]
import re
s=re.sub(r'Result: \d+ of \d+ changes are reported by at least one check, \d+ of \d+ by the check', 'Result: %d of %d changes are reported by at least one check, %d of %d by the check'%(some,tot,tg,tot), s)
open(p,'w').write(s)
print(some,tg,tot)

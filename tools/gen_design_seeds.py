#!/usr/bin/env python3
"""Regenerates section 9 of DESIGN.md from seeded/RESULTS.json and seeded/DESCRIPTIONS.json."""
import json
r=json.load(open('/verif/seeded/RESULTS.json'))
desc=json.load(open('/verif/seeded/DESCRIPTIONS.json'))
rows=[]
for k in sorted(r):
    v=r[k]
    fired=', '.join(v.get('fired',[])) or '—'
    mark='✓' if v.get('caught_by_target') else ('(other)' if v.get('fired') else '✗')
    rows.append('| %s | %s | %s | %s |'%(k,desc.get(k,''),fired,mark))
tot=len(r); some=sum(1 for v in r.values() if v.get('fired')); tg=sum(1 for v in r.values() if v.get('caught_by_target'))
p='/verif/DESIGN.md'
s=open(p).read()
a=s.index('| seed | change | checks that report it | by its own property\'s check |')
b=s.index('Checks strengthened because a seed was first missed')
s=s[:a]+'| seed | change | checks that report it | by its own property\'s check |\n|------|--------|-----------------------|-----------------------------|\n'+'\n'.join(rows)+'\n\n'+s[b:]
import re
s=re.sub(r'Result: \d+ of \d+ changes are reported by at least one check, \d+ of \d+ by the check\nof the property they were written against \(the others are reported by the check\nof the property whose mechanism they actually break, e\.g\. the shallow-array\n`deepCopy` written against C04/C06/C18 is an isolation defect and is reported by\nC10-R2\)\.',
         'Result: %d of %d changes are reported by at least one check, %d of %d by the check\nof the property they were written against (several are also reported by the checks\nof neighbouring properties whose mechanism they break, e.g. the shallow-array\n`deepCopy` written against C04/C06/C10/C18 is reported by all four through the shared\nscript-isolation rule).'%(some,tot,tg,tot), s)
open(p,'w').write(s)
print(some,tg,tot)

#!/usr/bin/env python3
"""Regression witnesses for the repaired defects: for every "fix:" commit of /repo, reverse-apply
its diff to the working tree (3-way), run the checks of the properties whose `fixed` entries in
known_findings.json name that commit, and revert.  Each must report a violation again (a fixed
entry suppresses nothing).  Writes /verif/seeded/REVERTS.json."""
import glob, json, os, subprocess, sys
from concurrent.futures import ThreadPoolExecutor
def sh(c, cwd='/repo'):
    return subprocess.run(c, shell=True, cwd=cwd, capture_output=True, text=True)
if sh('git status --porcelain').stdout.strip():
    print('REPO DIRTY'); sys.exit(2)
kf = json.load(open('/verif/known_findings.json'))
bycommit = {}
for e in kf:
    if e.get('status') == 'fixed':
        for cm in str(e.get('commit', '')).replace(',', ' ').split():
            bycommit.setdefault(cm[:7], set()).add(e['property'])
os.makedirs('/tmp/seedrun', exist_ok=True)
sh('cp /verif/known_findings.json /tmp/seedrun/', '/verif')
sh('./check C20 quick >/dev/null 2>&1; cp /verif/bin/sheens-verif /tmp/seedrun/sheens-verif', '/verif')
env = dict(os.environ, VERIF_BIN='/tmp/seedrun/sheens-verif', VERIF_DIR='/tmp/seedrun')
commits = [l.split()[0] for l in sh('git log --format="%h %s" --grep="^fix:"').stdout.splitlines()]
res = {}
for cm in commits:
    props = sorted(bycommit.get(cm[:7], []))
    subj = sh('git log -1 --format=%%s %s' % cm).stdout.strip()
    if not props:
        res[cm] = {'subject': subj, 'status': 'no fixed entry names this commit'}
        print(cm, 'no fixed entry'); continue
    sh('git diff %s %s^ > /tmp/seedrun/revert.diff' % (cm, cm))
    hand = [d for d in glob.glob('/verif/seeded/reverts/*-%s' % cm[:7])]
    if hand:
        # a later repair touches the same lines: the revert was re-done by hand on the current tree
        sh('cp %s/patch.diff /tmp/seedrun/revert.diff' % hand[0])
    r = sh('git apply --3way /tmp/seedrun/revert.diff')
    sh('git reset -q')
    conflict = sh('grep -rl "^<<<<<<<" --include=*.go . | head -1').stdout.strip()
    if r.returncode != 0 or conflict:
        sh('git reset -q --hard HEAD; git clean -fdq')
        res[cm] = {'subject': subj, 'properties': props, 'status': 'revert does not apply to HEAD (later repairs touch the same lines)'}
        print(cm, 'revert does not apply'); continue
    b = subprocess.run('go build ./...', shell=True, cwd='/repo', capture_output=True, text=True, env=dict(env, GOFLAGS='-mod=mod', GOPROXY='off', GOSUMDB='off', GOTOOLCHAIN='local'))
    if b.returncode != 0:
        sh('git reset -q --hard HEAD; git clean -fdq')
        res[cm] = {'subject': subj, 'properties': props, 'status': 'reverted tree does not build'}
        print(cm, 'reverted tree does not build'); continue
    fired = {}
    with ThreadPoolExecutor(8) as ex:
        outs = list(ex.map(lambda p: subprocess.run('./check %s quick' % p, shell=True, cwd='/verif', capture_output=True, text=True, env=env), props))
    for p, o in zip(props, outs):
        fired[p] = [l.strip()[:260] for l in o.stdout.splitlines() if l.startswith('  VIOLATED') or l.startswith('  UNDECIDED')][:3] if o.returncode != 0 else []
    sh('git reset -q --hard HEAD; git clean -fdq')
    ok = all(fired[p] for p in props)
    res[cm] = {'subject': subj, 'properties': props, 'status': 'reported again' if ok else 'NOT REPORTED', 'reports': fired}
    print(cm, props, 'reported again' if ok else 'NOT REPORTED by ' + ','.join(p for p in props if not fired[p]))
json.dump(res, open('/verif/seeded/REVERTS.json', 'w'), indent=1, sort_keys=True)
n = sum(1 for v in res.values() if v['status'] == 'reported again')
print('fix commits %d, reverted and reported again %d' % (len(res), n))

#!/usr/bin/env python3
"""Confirms a behaviour-preserving refactoring produced by a sub-agent: applies
$REF_BASE/<ID>/<i>/patch.diff (3-way) to a scratch worktree of /repo HEAD, go build, full suite.
On success stores it as /verif/refactors/<ID>-<i+offset>/ (patch as it applies to HEAD, notes.md).
usage: REF_BASE=/tmp/out5 confirm_refactor.py C01 1 [offset]"""
import json, os, subprocess, sys, shutil
ENV = dict(os.environ, GOFLAGS="-mod=mod", GOPROXY="off", GOSUMDB="off", GOTOOLCHAIN="local")
ENV.pop("GOWORK", None)
def run(cmd, cwd, timeout=1200):
    p = subprocess.run(cmd, cwd=cwd, env=ENV, shell=True, stdout=subprocess.PIPE, stderr=subprocess.STDOUT, text=True, timeout=timeout)
    return p.returncode, p.stdout
pid, idx = sys.argv[1], sys.argv[2]
off = int(sys.argv[3]) if len(sys.argv) > 3 else 0
src = "%s/%s/%s" % (os.environ.get("REF_BASE", "/tmp/out5"), pid, idx)
wt = "/tmp/cfr/%s_%s" % (pid, idx)
os.makedirs("/tmp/cfr", exist_ok=True)
subprocess.run("git -C /repo worktree remove --force %s" % wt, shell=True, stdout=subprocess.DEVNULL, stderr=subprocess.DEVNULL)
rc, out = run("git -C /repo worktree add --detach %s HEAD" % wt, "/")
verdict = "?"
try:
    rc, out = run("git apply --3way %s/patch.diff" % src, wt)
    if rc != 0:
        verdict = "patch-does-not-apply"
    else:
        run("git reset -q", wt)
        run("git add -N .", wt)  # so that files the refactoring adds are part of the stored patch
        patch = run("git diff", wt)[1]
        rc, out = run("go build ./...", wt)
        if rc != 0:
            verdict = "does-not-build"
        else:
            rc, out = run("go test -vet=off -count=1 ./... 2>&1 | grep -v 'no test files'", wt)
            if "FAIL" in out or "panic:" in out:
                # the ecmascript timeout tests are flaky under load: retry once
                rc, out = run("go test -vet=off -count=1 ./... 2>&1 | grep -v 'no test files'", wt)
            if "FAIL" in out or "panic:" in out:
                verdict = "suite-fails"
            else:
                verdict = "confirmed"
                dst = "/verif/refactors/%s-%d" % (pid, int(idx) + off)
                os.makedirs(dst, exist_ok=True)
                open(dst + "/patch.diff", "w").write(patch)
                if os.path.exists(src + "/notes.md"):
                    shutil.copy(src + "/notes.md", dst + "/notes.md")
finally:
    print(pid, idx, verdict)
    subprocess.run("git -C /repo worktree remove --force %s" % wt, shell=True, stdout=subprocess.DEVNULL, stderr=subprocess.DEVNULL)

#!/bin/bash
# scratch_try.sh <Cxx> <binary> <patch.diff|-> ...: applies each patch to its own scratch copy of /repo HEAD (never to
# /repo itself, so it can run while a matrix tool is using /repo), runs one quick check with the given prebuilt binary.
ID=$1; BIN=$2; shift 2
for P in "$@"; do
  [ "$P" != "-" ] && P=$(realpath "$P")
  D=$(mktemp -d /tmp/scr.XXXXXX)
  git -C /repo archive HEAD | tar -x -C $D
  if [ "$P" != "-" ]; then (cd $D && git init -q . && git apply "$P" </dev/null) || { echo "$P: APPLY FAILED"; rm -rf $D; continue; }; fi
  mkdir -p $D/.verifout; cp /verif/known_findings.json $D/.verifout/
  echo "== $P"
  VERIF_REPO=$D VERIF_BIN=$BIN VERIF_DIR=$D/.verifout /verif/check $ID quick | grep -v "^KNOWN-FINDING" | tail -${TAILN:-4} | cut -c1-${CUTN:-500}
  rm -rf $D
done

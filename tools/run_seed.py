#!/usr/bin/env python3
"""Applies a seeded patch to /repo, runs the given checks (default: all claimed), reverts.
usage: run_seed.py <dir-with-patch.diff> [Cxx ...]"""
import json, os, subprocess, sys
d = sys.argv[1]
checks = sys.argv[2:]
if not checks:
    m = json.load(open('/verif/MANIFEST.json'))
    checks = [c['property_id'] for c in m['checks']]
patch = os.path.join(d, 'patch.diff')
st = subprocess.run('git -C /repo status --porcelain', shell=True, capture_output=True, text=True).stdout.strip()
if st:
    print('REPO DIRTY, refusing:', st); sys.exit(2)
r = subprocess.run('git -C /repo apply --3way %s && git -C /repo reset -q' % patch, shell=True, capture_output=True, text=True)
if r.returncode != 0:
    print('APPLY FAILED', r.stderr[-500:]); subprocess.run('git -C /repo checkout -- . ; git -C /repo reset -q', shell=True); sys.exit(3)
fired = []
try:
    for c in checks:
        p = subprocess.run('./check %s quick' % c, shell=True, cwd='/verif', capture_output=True, text=True, env=dict(os.environ, VERIF_DIR='/tmp/seedrun'))
        lines = [l for l in p.stdout.splitlines() if l.startswith('  VIOLATED') or l.startswith('  UNDECIDED')]
        if p.returncode != 0:
            fired.append(c)
            for l in lines[:4]:
                print('   ', c, l[:260])
finally:
    subprocess.run('git -C /repo checkout -- . && git -C /repo clean -fdq', shell=True)
print('SEED', d, 'fired:', fired)

#!/bin/bash
# usage: tools/try.sh <check-id> <patch-dir>...   applies each patch to /repo, runs one check, reverts
id=$1; shift
[ -n "$(git -C /repo status --porcelain)" ] && { echo "REPO DIRTY"; exit 2; }
mkdir -p /tmp/seedrun; cp /verif/known_findings.json /tmp/seedrun/
for d in "$@"; do
  git -C /repo apply "$(realpath $d)/patch.diff" || { echo "$d: APPLY FAILED"; continue; }
  out=$(cd /verif && VERIF_DIR=/tmp/seedrun ./check $id quick 2>&1); rc=$?
  git -C /repo checkout -- . ; git -C /repo clean -fdq
  echo "== $(basename $d) $id rc=$rc"; echo "$out" | grep -E "^\s+(VIOLATED|UNDECIDED)|BROKEN" | cut -c1-420 | head -${TRY_N:-6}
done

#!/usr/bin/env python3
"""Generates /verif/MANIFEST.json from the table below (kept valid at all times)."""
import json, subprocess, os, sys

VERIF = os.path.dirname(os.path.dirname(os.path.abspath(__file__)))

NOTE = ("Trusted base: go/types, go/ssa and the VTA-over-CHA call graph of golang.org/x/tools v0.29.0; "
        "assumptions A1-A5 of DESIGN.md section 3 (callbacks own their results and do not write their arguments; "
        "external model for std/goja/bbolt/yaml; no unsafe/reflect writes; JSON-shaped inputs). "
        "The check decides the named structural necessary conditions on every path of the analysed functions, not the behaviour.")

# id -> (technique, level text, design ref)
CLAIMED = {}

def claim(pid, technique, text, ref):
    CLAIMED[pid] = (technique, text, ref)

NOT_APPLICABLE = {}

def na(pid, reason):
    NOT_APPLICABLE[pid] = reason

exec(open(os.path.join(VERIF, "tools", "claims.py")).read())

def fix_commits():
    try:
        out = subprocess.check_output(["git", "-C", "/repo", "log", "--format=%H %s"], text=True)
    except Exception:
        return []
    return [l.split()[0] for l in out.splitlines() if l.split(" ", 1)[1].startswith("fix:")][::-1]

props = [json.loads(l)["id"] for l in open(os.path.join(VERIF, "properties.jsonl"))]
checks = []
for pid in props:
    if pid in CLAIMED:
        tech, text, ref = CLAIMED[pid]
        checks.append({
            "property_id": pid,
            "quick_cmd": "./check %s quick" % pid,
            "thorough_cmd": "./check %s thorough" % pid,
            "evidence_file": "evidence/%s.json" % pid,
            "replay_cmd_template": "cat {path}; ./check %s quick" % pid,
            "engine": "sheens-verif",
            "level_claimed": {"category": "other", "text": text, "design_ref": ref},
            "level_note": NOTE,
            "technique": tech,
        })
na_list = [{"property_id": p, "reason": NOT_APPLICABLE.get(p, "no sound structural necessary condition built for this property in this revision; see DESIGN.md section 6")}
           for p in props if p not in CLAIMED]
m = {
    "version": 1,
    "setup_cmd": "cd checker && GOFLAGS=-mod=mod GOPROXY=off GOSUMDB=off GOTOOLCHAIN=local go build -o ../bin/sheens-verif ./cmd/sheens-verif",
    "hooks": {
        "guard": "verif",
        "enable": "no hooks: the checker analyses /repo's sources as they are (go/packages, default build tags); the build tag 'verif' is reserved and unused",
        "baseline_off_cmd": "cd /repo && GOFLAGS=-mod=mod GOPROXY=off GOSUMDB=off go test -vet=off -count=1 ./...",
        "source_commits": fix_commits(),
        "add_only": True,
    },
    "engines": [{
        "name": "sheens-verif",
        "path": "checker/",
        "serves_properties": [p for p in props if p in CLAIMED],
        "kind_free_text": "repository-specific static analyser over go/types + go/ssa: points-to/write-effect (E1), nil-contract (E2), path/dominance (E3), lockset (E4), provenance (E5), table/sibling (E6), who-may (E7)",
    }],
    "checks": checks,
    "not_applicable": na_list,
    "notes": "Static analysis only. hooks.source_commits lists the unguarded 'fix:' commits in /repo (genuine defects repaired; see known_findings.json and DESIGN.md section 5); there are no instrumentation hooks.",
}
json.dump(m, open(os.path.join(VERIF, "MANIFEST.json"), "w"), indent=1)
print("claimed:", [p for p in props if p in CLAIMED])

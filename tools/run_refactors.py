#!/usr/bin/env python3
"""Applies each behaviour-preserving refactoring under /tmp/out3 (or the kept ones under
/verif/refactors) to /repo, runs every claimed quick check, reverts.  Any check that fires is a
false alarm to triage.  usage: run_refactors.py [dir-prefix ...]"""
import json, os, subprocess, sys, glob
from concurrent.futures import ThreadPoolExecutor
m = json.load(open('/verif/MANIFEST.json'))
checks = [c['property_id'] for c in m['checks']]
base = sys.argv[1] if len(sys.argv) > 1 else '/verif/refactors'
only = sys.argv[2:]
st = subprocess.run('git -C /repo status --porcelain', shell=True, capture_output=True, text=True).stdout.strip()
if st:
    print('REPO DIRTY, refusing:', st); sys.exit(2)
os.makedirs('/tmp/seedrun', exist_ok=True)
subprocess.run('cp /verif/known_findings.json /tmp/seedrun/', shell=True)
res = {}
subprocess.run('cd /verif && ./check C20 quick >/dev/null 2>&1; cp /verif/bin/sheens-verif /tmp/seedrun/sheens-verif', shell=True)
env = dict(os.environ, VERIF_BIN='/tmp/seedrun/sheens-verif', VERIF_DIR='/tmp/seedrun', GOFLAGS='-mod=mod', GOPROXY='off', GOSUMDB='off', GOTOOLCHAIN='local')
for pf in sorted(glob.glob(base + '/C*/*/patch.diff') + glob.glob(base + '/C*-*/patch.diff')):
    d = os.path.dirname(pf)
    name = os.path.relpath(d, base).replace('/', '-')
    if only and not any(name.startswith(o) for o in only):
        continue
    r = subprocess.run('git -C /repo apply --3way %s && git -C /repo reset -q' % pf, shell=True, capture_output=True, text=True)
    if r.returncode != 0:
        subprocess.run('git -C /repo checkout -- . ; git -C /repo reset -q; git -C /repo clean -fdq', shell=True)
        res[name] = {'error': 'patch does not apply'}
        print(name, 'APPLY FAILED'); continue
    fired, detail = [], {}
    try:
        b = subprocess.run('go build ./...', shell=True, cwd='/repo', capture_output=True, text=True, env=env)
        if b.returncode != 0:
            res[name] = {'error': 'does not build'}
            print(name, 'BUILD FAILED'); continue
        with ThreadPoolExecutor(10) as ex:
            outs = list(ex.map(lambda c: subprocess.run('./check %s quick' % c, shell=True, cwd='/verif', capture_output=True, text=True, env=env), checks))
        for c, p in zip(checks, outs):
            if p.returncode != 0:
                fired.append(c)
                detail[c] = [l.strip()[:400] for l in p.stdout.splitlines() if l.startswith('  VIOLATED') or l.startswith('  UNDECIDED')][:4]
    finally:
        subprocess.run('git -C /repo checkout -- . && git -C /repo clean -fdq', shell=True)
    res[name] = {'fired': fired, 'detail': detail}
    print(name, 'fired:', fired)
    for c, ds in detail.items():
        for x in ds:
            print('    ', x[:300])
out = '/tmp/refactor_results.json'
if base == '/verif/refactors':
    out = base + '/RESULTS.json'
    if only and os.path.exists(out):
        old = json.load(open(out)); old.update(res); res = old
json.dump(res, open(out, 'w'), indent=1, sort_keys=True)
tot = len(res); bad = sum(1 for v in res.values() if v.get('fired'))
print('refactorings %d, false alarms on %d' % (tot, bad))
